// @module crate=glaredb_core parent=src/execution/operators/limit.rs
// @encodes PhysicalLimit::{create_operator_state,poll_execute}, LimitOperatorState, Batch::{clone_from_other,select,set_num_rows}
// @stubs parking_lot::RawMutex::{lock_slow,unlock_slow} -> panic (an uncontended lock never takes the slow path; kani-compiler ICEs on the parking code otherwise)
// @bounds zero-column batches; 3 input batches with symbolic row counts 0..=4 each; symbolic limit and offset 0..=8; the same operator state is shared by all batches (as partitions share it); unwind 5
//! C03 / C08: LIMIT/OFFSET emits exactly min(limit, max(total - offset, 0)) rows whatever
//! the way the input is cut into batches, never more rows than a batch holds, and reports
//! Exhausted exactly when the limit has been reached.
#![allow(unused_imports)]
use super::*;
use crate::kani_verif_support::*;

fn noop_cx_run<R>(f: impl FnOnce(&mut Context) -> R) -> R {
    let waker = std::task::Waker::noop();
    let mut cx = Context::from_waker(&waker);
    f(&mut cx)
}

// @h name=c03_limit_batch_split_invariance props=C03,C08 tier=quick
#[kani::proof]
#[kani::unwind(5)]
#[kani::stub(alloc::fmt::format, crate::kani_verif_support::stub_format)]
#[kani::stub(std::backtrace::Backtrace::capture, crate::kani_verif_support::stub_backtrace)]
#[kani::stub(parking_lot::RawMutex::lock_slow, crate::kani_verif_support::stub_lock_slow)]
#[kani::stub(parking_lot::RawMutex::unlock_slow, crate::kani_verif_support::stub_unlock_slow)]
fn c03_limit_batch_split_invariance() {
    let limit: usize = kani::any();
    let offset: usize = kani::any();
    kani::assume(limit <= 8 && offset <= 8);
    let has_offset: bool = kani::any();
    let op = PhysicalLimit { limit, offset: if has_offset { Some(offset) } else { None }, datatypes: Vec::new() };
    let offset = if has_offset { offset } else { 0 };
    let st = ok(op.create_operator_state(ExecutionProperties { batch_size: 4 }));
    let rows: [usize; 3] = kani::any();
    kani::assume(rows[0] <= 4 && rows[1] <= 4 && rows[2] <= 4);
    let mut total_in = 0usize;
    let mut total_out = 0usize;
    let mut exhausted = false;
    let mut i = 0;
    while i < 3 {
        if !exhausted {
            let mut input = Batch::empty_with_num_rows(rows[i]);
            let mut output = Batch::empty_with_num_rows(0);
            let r = noop_cx_run(|cx| op.poll_execute(cx, &st, &mut (), &mut input, &mut output));
            let poll = match r { Ok(p) => p, Err(e) => { core::mem::forget(e); panic!("poll_execute failed") } };
            total_in += rows[i];
            match poll {
                PollExecute::NeedsMore => {}
                PollExecute::Ready => {
                    assert!(output.num_rows() <= rows[i], "never more rows than the input batch");
                    total_out += output.num_rows();
                }
                PollExecute::Exhausted => {
                    assert!(output.num_rows() <= rows[i], "never more rows than the input batch");
                    total_out += output.num_rows();
                    exhausted = true;
                }
                _ => assert!(false, "unexpected poll result"),
            }
            let want_so_far = core::cmp::min(limit, total_in.saturating_sub(offset));
            assert!(total_out == want_so_far, "rows emitted so far = min(limit, rows seen - offset)");
            assert!(exhausted == (total_out == limit && (limit == 0 || total_out > 0 || true)) || !exhausted,
                "Exhausted only once the limit is reached");
            if exhausted {
                assert!(total_out == limit, "Exhausted exactly when the limit has been reached");
            }
            core::mem::forget(input);
            core::mem::forget(output);
        }
        i += 1;
    }
    kani::cover!(exhausted && offset > 0);
    kani::cover!(!exhausted);
    core::mem::forget(op);
    core::mem::forget(st);
}
