// @module crate=glaredb_core parent=src/functions/table/builtin/series.rs
// @encodes SeriesParams::generate_next
// @bounds symbolic start/stop/step (full i64 width, progression assumed not to leave i64 within the 5 generated terms in the healthy harness); output capacities 2+2 versus 4; unwind 6
//! C03: generate_series produces the same arithmetic progression whatever the output batch
//! capacity: two calls with capacity 2 equal one call with capacity 4. C15: near the i64
//! limits it must stop or fail, not overflow.
#![allow(unused_imports)]
use super::*;
use crate::arrays::datatype::DataType;
use crate::buffer::buffer_manager::DefaultBufferManager;
use crate::arrays::array::physical_type::ScalarStorage;
use crate::kani_verif_support::*;

fn run_gen(p: &mut SeriesParams, cap: usize, dst: &mut [i64; 4], at: usize) -> usize {
    let mut out = ok(Array::new(&DefaultBufferManager, DataType::int64(), cap));
    let n = ok(p.generate_next(&mut out));
    assert!(n <= cap, "never more values than the output capacity");
    let s = ok(PhysicalI64::get_addressable(&out.data)).slice;
    let mut i = 0;
    while i < n {
        dst[at + i] = s[i];
        i += 1;
    }
    core::mem::forget(out);
    n
}

// @h name=c03_series_capacity_invariance props=C03 tier=quick
#[kani::proof]
#[kani::unwind(6)]
#[kani::stub(alloc::fmt::format, crate::kani_verif_support::stub_format)]
#[kani::stub(std::backtrace::Backtrace::capture, crate::kani_verif_support::stub_backtrace)]
fn c03_series_capacity_invariance() {
    let start: i64 = kani::any();
    let stop: i64 = kani::any();
    let step: i64 = kani::any();
    kani::assume(step != 0);
    // healthy region: start + 5*step stays inside i64
    kani::assume(step.checked_mul(5).and_then(|d| start.checked_add(d)).is_some());
    let mut whole = [0i64; 4];
    let mut parts = [0i64; 4];
    let mut p1 = SeriesParams { curr: start, stop, step, done: false };
    let mut p2 = SeriesParams { curr: start, stop, step, done: false };
    let n1 = run_gen(&mut p1, 4, &mut whole, 0);
    let a = run_gen(&mut p2, 2, &mut parts, 0);
    let b = if a == 2 { run_gen(&mut p2, 2, &mut parts, 2) } else { 0 };
    kani::cover!(n1 == 4);
    kani::cover!(n1 == 1);
    assert!(n1 == a + b, "same number of values whatever the capacity");
    let mut i = 0;
    while i < 4 {
        if i < n1 {
            assert!(whole[i] == parts[i], "same values whatever the capacity");
            assert!(whole[i] == start + (i as i64) * step, "arithmetic progression from start");
            assert!(if step > 0 { whole[i] <= stop } else { whole[i] >= stop }, "never beyond stop");
        }
        i += 1;
    }
    // completeness: if fewer than 4 values were produced the next term is beyond stop
    if n1 < 4 {
        let next = start + (n1 as i64) * step;
        assert!(if step > 0 { next > stop } else { next < stop }, "stops only when the next term passes stop");
    }
}

// @h name=c03_series_near_limit props=C03,C15 tier=quick
#[kani::proof]
#[kani::unwind(6)]
#[kani::stub(alloc::fmt::format, crate::kani_verif_support::stub_format)]
#[kani::stub(std::backtrace::Backtrace::capture, crate::kani_verif_support::stub_backtrace)]
fn c03_series_near_limit() {
    let start: i64 = kani::any();
    let step: i64 = kani::any();
    kani::assume(step > 0 && step < 1 << 40);
    kani::assume(start > i64::MAX - 3 * step && start <= i64::MAX - step);
    let mut p = SeriesParams { curr: start, stop: i64::MAX, step, done: false };
    let mut out = [0i64; 4];
    kani::cover!(true);
    let n = run_gen(&mut p, 4, &mut out, 0);
    // terms start, start+step, ... while <= i64::MAX: at most 3 of them; then the series ends
    assert!(n >= 1 && n <= 3 && out[0] == start, "series ending at i64::MAX terminates");
    let n2 = run_gen(&mut p, 4, &mut out, 0);
    assert!(n2 == 0, "and stays finished");
}
