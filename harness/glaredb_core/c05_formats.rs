// @module crate=glaredb_core parent=src/functions/scalar/builtin/mod.rs
// @encodes IsBool::<N,B>::execute, Not::execute (UnaryExecutor), FlatComparison::<EqOperation,PhysicalI32>::execute (BinaryExecutor::execute_with_selection), Array::select (dictionary), Array::new_constant, Validity::select
// @bounds two-row arrays presented as a dictionary (selection [1,0]) or as a constant; symbolic values; the NULL row is concrete; unwind 6
//! C05 (representation independence): the value of an expression does not depend on the
//! vector representation - a row seen through a selection (dictionary) or a constant array
//! evaluates exactly like the same row in a flat array, including its NULL-ness.
#![allow(unused_imports)]
use crate::arrays::array::Array;
use crate::arrays::array::physical_type::*;
use crate::arrays::batch::Batch;
use crate::arrays::datatype::DataType;
use crate::buffer::buffer_manager::DefaultBufferManager;
use crate::functions::scalar::ScalarFunction;
use crate::functions::scalar::builtin::comparison::*;
use crate::functions::scalar::builtin::is::IsBool;
use crate::functions::scalar::builtin::negate::Not;
use crate::kani_verif_support::*;
use crate::util::iter::TryFromExactSizeIterator;

/// two-row array [v0, v1] with physical row `null_phys` NULL, viewed through the selection
/// [1, 0]: logical row 0 = physical row 1, logical row 1 = physical row 0.
fn dict2<T: Copy>(v0: T, v1: T, null_phys: usize) -> Array
where
    Array: TryFromExactSizeIterator<T, Error = glaredb_error::DbError>,
{
    let mut arr = ok(Array::try_from_iter([v0, v1]));
    arr.validity.set_invalid(null_phys);
    assert!(is_ok_forget(arr.select(&DefaultBufferManager, [1usize, 0])), "select succeeds");
    arr
}

macro_rules! out2 {
    ($F:ty, $arrays:expr) => {{
        let batch = Batch { arrays: $arrays, num_rows: 2, cache: None };
        let mut out = ok(Array::new(&DefaultBufferManager, DataType::boolean(), 2));
        assert!(is_ok_forget(<$F as ScalarFunction>::execute(&(), &batch, &mut out)), "execute succeeds");
        let s = ok(PhysicalBool::get_addressable(&out.data)).slice;
        let r = [
            if out.validity.is_valid(0) { Some(s[0]) } else { None },
            if out.validity.is_valid(1) { Some(s[1]) } else { None },
        ];
        core::mem::forget(batch);
        core::mem::forget(out);
        r
    }};
}

// @h name=c05_is_bool_dictionary props=C05 tier=quick
#[kani::proof]
#[kani::unwind(6)]
#[kani::stub(alloc::fmt::format, crate::kani_verif_support::stub_format)]
#[kani::stub(std::backtrace::Backtrace::capture, crate::kani_verif_support::stub_backtrace)]
fn c05_is_bool_dictionary() {
    let v0: bool = kani::any();
    let v1: bool = kani::any();
    // physical row 1 is NULL  =>  logical row 0 is NULL, logical row 1 = v0
    let r = out2!(IsBool<false, true>, vec![dict2::<bool>(v0, v1, 1)]);
    assert!(r[0] == Some(false) && r[1] == Some(v0), "IS TRUE through a selection: NULL row -> false, other row by value");
    let r = out2!(IsBool<true, false>, vec![dict2::<bool>(v0, v1, 1)]);
    assert!(r[0] == Some(true) && r[1] == Some(v0), "IS NOT FALSE through a selection");
    // physical row 0 is NULL  =>  logical row 1 is NULL, logical row 0 = v1
    let r = out2!(IsBool<false, false>, vec![dict2::<bool>(v0, v1, 0)]);
    assert!(r[0] == Some(!v1) && r[1] == Some(false), "IS FALSE through a selection");
    kani::cover!(true);
}

// @h name=c05_not_dictionary props=C05 tier=quick
#[kani::proof]
#[kani::unwind(6)]
#[kani::stub(alloc::fmt::format, crate::kani_verif_support::stub_format)]
#[kani::stub(std::backtrace::Backtrace::capture, crate::kani_verif_support::stub_backtrace)]
fn c05_not_dictionary() {
    let v0: bool = kani::any();
    let v1: bool = kani::any();
    let r = out2!(Not, vec![dict2::<bool>(v0, v1, 1)]);
    assert!(r[0].is_none() && r[1] == Some(!v0), "NOT through a selection: NULL row stays NULL, other row negated");
    let r = out2!(Not, vec![dict2::<bool>(v0, v1, 0)]);
    assert!(r[0] == Some(!v1) && r[1].is_none(), "NOT through a selection (other NULL position)");
    kani::cover!(true);
}

// @h name=c05_eq_dictionary_vs_flat props=C05 tier=thorough
#[kani::proof]
#[kani::unwind(6)]
#[kani::stub(alloc::fmt::format, crate::kani_verif_support::stub_format)]
#[kani::stub(std::backtrace::Backtrace::capture, crate::kani_verif_support::stub_backtrace)]
fn c05_eq_dictionary_vs_flat() {
    let a0: i32 = kani::any();
    let a1: i32 = kani::any();
    let b0: i32 = kani::any();
    let b1: i32 = kani::any();
    // left: dictionary [a1 (NULL), a0]; right: flat [b0, b1]
    let right = ok(Array::try_from_iter([b0, b1]));
    let r = out2!(FlatComparison<EqOperation, PhysicalI32>, vec![dict2::<i32>(a0, a1, 1), right]);
    assert!(r[0].is_none() && r[1] == Some(a0 == b1), "= with a dictionary operand: row-wise, NULL row stays NULL");
    kani::cover!(true);
}

// @h name=c05_not_constant props=C05 tier=quick
#[kani::proof]
#[kani::unwind(6)]
#[kani::stub(alloc::fmt::format, crate::kani_verif_support::stub_format)]
#[kani::stub(std::backtrace::Backtrace::capture, crate::kani_verif_support::stub_backtrace)]
fn c05_not_constant() {
    use crate::arrays::scalar::BorrowedScalarValue;
    let v: bool = kani::any();
    // a constant (one value for every row) and a constant NULL: the representations literals
    // and folded sub-expressions take
    let c = ok(Array::new_constant(&DefaultBufferManager, &BorrowedScalarValue::Boolean(v), 2));
    let r = out2!(Not, vec![c]);
    assert!(r[0] == Some(!v) && r[1] == Some(!v), "NOT over a constant array: every row negated");
    let n = ok(Array::new_null(&DefaultBufferManager, DataType::boolean(), 2));
    let r = out2!(Not, vec![n]);
    assert!(r[0].is_none() && r[1].is_none(), "NOT over a constant NULL: every row NULL");
    let c = ok(Array::new_constant(&DefaultBufferManager, &BorrowedScalarValue::Boolean(v), 2));
    let r = out2!(IsBool<false, true>, vec![c]);
    assert!(r[0] == Some(v) && r[1] == Some(v), "IS TRUE over a constant array");
    let n = ok(Array::new_null(&DefaultBufferManager, DataType::boolean(), 2));
    let r = out2!(IsBool<true, true>, vec![n]);
    assert!(r[0] == Some(true) && r[1] == Some(true), "IS NOT TRUE over a constant NULL is true");
    kani::cover!(true);
}
