// @module crate=glaredb_core parent=src/functions/scalar/builtin/mod.rs
// @encodes And::execute, Or::execute, Not::execute, CheckNull::<R>::execute, IsBool::<N,B>::execute, FlatComparison::<O,S>::execute, FlatDistinctComparison::<O,S>::execute, BinaryExecutor::execute, UnaryExecutor::execute, UniformExecutor::execute, Validity::{is_valid,set_invalid,all_valid}
// @bounds one-row arrays (three input arrays for the n-ary path); values symbolic (full width); the NULL pattern of the inputs is concrete per harness and every pattern has its own harness (a symbolic validity variant makes CBMC case-split over heap objects: 10 GB in 40 s); unwind 5
//! (The n-ary AND/OR path through UniformExecutor - a Vec of references per row - exceeded the
//! 14 GB memory cap at every NULL pattern and is not harnessed; the macro is kept for reference.)
//! C05: AND/OR/NOT follow Kleene three-valued logic; IS predicates and
//! comparisons follow SQL semantics; NULL propagates through strict functions.
#![allow(unused_imports)]
use crate::arrays::array::Array;
use crate::arrays::array::physical_type::*;
use crate::arrays::batch::Batch;
use crate::arrays::datatype::DataType;
use crate::buffer::buffer_manager::DefaultBufferManager;
use crate::functions::scalar::ScalarFunction;
use crate::functions::scalar::builtin::boolean::{And, Or};
use crate::functions::scalar::builtin::comparison::*;
use crate::functions::scalar::builtin::is::{CheckNull, IsBool};
use crate::functions::scalar::builtin::negate::Not;
use crate::kani_verif_support::*;
use crate::util::iter::TryFromExactSizeIterator;

/// Kleene AND / OR on Option<bool> (None = NULL): the oracle.
fn k_and(a: Option<bool>, b: Option<bool>) -> Option<bool> {
    match (a, b) {
        (Some(false), _) | (_, Some(false)) => Some(false),
        (Some(true), Some(true)) => Some(true),
        _ => None,
    }
}
fn k_or(a: Option<bool>, b: Option<bool>) -> Option<bool> {
    match (a, b) {
        (Some(true), _) | (_, Some(true)) => Some(true),
        (Some(false), Some(false)) => Some(false),
        _ => None,
    }
}

/// Runs a boolean-valued function on a one-row batch; returns Some(Some(v)) for a
/// valid value, Some(None) for NULL, None for an error.
macro_rules! run_bool {
    ($F:ty, $arrays:expr) => {{
        let batch = Batch { arrays: $arrays, num_rows: 1, cache: None };
        let mut out = ok(Array::new(&DefaultBufferManager, DataType::boolean(), 1));
        let good = is_ok_forget(<$F as ScalarFunction>::execute(&(), &batch, &mut out));
        let res = if !good {
            None
        } else if out.validity.is_valid(0) {
            Some(Some(ok(PhysicalBool::get_addressable(&out.data)).slice[0]))
        } else {
            Some(None)
        };
        core::mem::forget(batch);
        core::mem::forget(out);
        res
    }};
}

macro_rules! std_attrs {
    ($(#[$m:meta])* fn $name:ident() $body:block) => {
        #[kani::proof]
        #[kani::unwind(5)]
        #[kani::stub(alloc::fmt::format, crate::kani_verif_support::stub_format)]
        #[kani::stub(std::backtrace::Backtrace::capture, crate::kani_verif_support::stub_backtrace)]
        $(#[$m])*
        fn $name() $body
    };
}


/// `opt!(is_null, v)`: the harness input as Option.
macro_rules! opt {
    (N, $v:expr) => { None };
    (V, $v:expr) => { Some($v) };
}
/// NULL flag of a pattern position as a literal (Option<bool>::is_none() is a niche test on
/// the symbolic value byte and is not constant-propagated by CBMC).
macro_rules! isnull {
    (N) => { true };
    (V) => { false };
}

// ---- AND / OR over a concrete NULL pattern, symbolic values ----
// region H ("healthy"): no NULL input next to a dominating value (NULL propagation = Kleene)
// region D ("dominated"): some NULL input and some dominating value (false for AND, true for OR)
macro_rules! logic2 {
    ($name:ident, $F:ty, $oracle:ident, $dom:expr, $na:tt, $nb:tt, $region:tt) => {
        std_attrs! {
            fn $name() {
                let va: bool = kani::any();
                let vb: bool = kani::any();
                let a: Option<bool> = opt!($na, va);
                let b: Option<bool> = opt!($nb, vb);
                let any_null = a.is_none() || b.is_none();
                let any_dom = a == Some($dom) || b == Some($dom);
                logic_region!($region, any_null, any_dom);
                let res = run_bool!($F, vec![arr1::<bool>(va, isnull!($na)), arr1::<bool>(vb, isnull!($nb))]);
                kani::cover!(true);
                assert!(res == Some($oracle(a, b)), "AND/OR equals the Kleene three-valued truth table");
            }
        }
    };
}
macro_rules! logic3 {
    ($name:ident, $F:ty, $oracle:ident, $dom:expr, $na:tt, $nb:tt, $nc:tt, $region:tt) => {
        std_attrs! {
            fn $name() {
                let va: bool = kani::any();
                let vb: bool = kani::any();
                let vc: bool = kani::any();
                let a: Option<bool> = opt!($na, va);
                let b: Option<bool> = opt!($nb, vb);
                let c: Option<bool> = opt!($nc, vc);
                let any_null = a.is_none() || b.is_none() || c.is_none();
                let any_dom = a == Some($dom) || b == Some($dom) || c == Some($dom);
                logic_region!($region, any_null, any_dom);
                let res = run_bool!($F, vec![arr1::<bool>(va, isnull!($na)), arr1::<bool>(vb, isnull!($nb)),
                                             arr1::<bool>(vc, isnull!($nc))]);
                kani::cover!(true);
                assert!(res == Some($oracle($oracle(a, b), c)), "AND/OR equals the Kleene three-valued truth table");
            }
        }
    };
}
macro_rules! logic_region {
    (H, $any_null:expr, $any_dom:expr) => { kani::assume(!($any_null && $any_dom)); };
    (D, $any_null:expr, $any_dom:expr) => { kani::assume($any_null && $any_dom); };
}
// @h name=c05_and2_vv_kleene props=C05 tier=quick
logic2!(c05_and2_vv_kleene, And, k_and, false, V, V, H);
// @h name=c05_and2_nv_kleene props=C05 tier=quick
logic2!(c05_and2_nv_kleene, And, k_and, false, N, V, H);
// @h name=c05_and2_nv_null_dominated props=C05 tier=quick
logic2!(c05_and2_nv_null_dominated, And, k_and, false, N, V, D);
// @h name=c05_and2_vn_kleene props=C05 tier=thorough
logic2!(c05_and2_vn_kleene, And, k_and, false, V, N, H);
// @h name=c05_and2_vn_null_dominated props=C05 tier=thorough
logic2!(c05_and2_vn_null_dominated, And, k_and, false, V, N, D);
// @h name=c05_and2_nn_kleene props=C05 tier=thorough
logic2!(c05_and2_nn_kleene, And, k_and, false, N, N, H);
// @h name=c05_or2_vv_kleene props=C05 tier=quick
logic2!(c05_or2_vv_kleene, Or, k_or, true, V, V, H);
// @h name=c05_or2_nv_kleene props=C05 tier=quick
logic2!(c05_or2_nv_kleene, Or, k_or, true, N, V, H);
// @h name=c05_or2_nv_null_dominated props=C05 tier=quick
logic2!(c05_or2_nv_null_dominated, Or, k_or, true, N, V, D);
// @h name=c05_or2_vn_kleene props=C05 tier=thorough
logic2!(c05_or2_vn_kleene, Or, k_or, true, V, N, H);
// @h name=c05_or2_vn_null_dominated props=C05 tier=thorough
logic2!(c05_or2_vn_null_dominated, Or, k_or, true, V, N, D);
// @h name=c05_or2_nn_kleene props=C05 tier=thorough
logic2!(c05_or2_nn_kleene, Or, k_or, true, N, N, H);

// ---- NOT ----
macro_rules! not1 {
    ($name:ident, $na:tt) => {
        std_attrs! {
            fn $name() {
                let va: bool = kani::any();
                let a: Option<bool> = opt!($na, va);
                let res = run_bool!(Not, vec![arr1::<bool>(va, isnull!($na))]);
                kani::cover!(true);
                assert!(res == Some(a.map(|v| !v)), "NOT: NULL -> NULL, otherwise negation");
            }
        }
    };
}
// @h name=c05_not_v props=C05 tier=quick
not1!(c05_not_v, V);
// @h name=c05_not_n props=C05 tier=quick
not1!(c05_not_n, N);

// ---- IS [NOT] NULL ----
macro_rules! isnull1 {
    ($name:ident, $na:tt) => {
        std_attrs! {
            fn $name() {
                let va: i32 = kani::any();
                let a: Option<i32> = opt!($na, va);
                let r1 = run_bool!(CheckNull<true>, vec![arr1::<i32>(va, isnull!($na))]);
                let r2 = run_bool!(CheckNull<false>, vec![arr1::<i32>(va, isnull!($na))]);
                kani::cover!(true);
                assert!(r1 == Some(Some(a.is_none())), "IS NULL is never NULL and is true exactly for NULL");
                assert!(r2 == Some(Some(a.is_some())), "IS NOT NULL is never NULL and is true exactly for non-NULL");
            }
        }
    };
}
// @h name=c05_is_null_v props=C05 tier=quick
isnull1!(c05_is_null_v, V);
// @h name=c05_is_null_n props=C05 tier=quick
isnull1!(c05_is_null_n, N);

// ---- IS [NOT] TRUE / FALSE (SQL standard, and the comment in is.rs: never NULL) ----
macro_rules! isbool1 {
    ($name:ident, $na:tt) => {
        std_attrs! {
            fn $name() {
                let va: bool = kani::any();
                let a: Option<bool> = opt!($na, va);
                let is_true = run_bool!(IsBool<false, true>, vec![arr1::<bool>(va, isnull!($na))]);
                let is_not_true = run_bool!(IsBool<true, true>, vec![arr1::<bool>(va, isnull!($na))]);
                let is_false = run_bool!(IsBool<false, false>, vec![arr1::<bool>(va, isnull!($na))]);
                let is_not_false = run_bool!(IsBool<true, false>, vec![arr1::<bool>(va, isnull!($na))]);
                kani::cover!(true);
                assert!(is_true == Some(Some(a == Some(true))), "IS TRUE");
                assert!(is_not_true == Some(Some(a != Some(true))), "IS NOT TRUE");
                assert!(is_false == Some(Some(a == Some(false))), "IS FALSE");
                assert!(is_not_false == Some(Some(a != Some(false))), "IS NOT FALSE");
            }
        }
    };
}
// @h name=c05_is_bool_v props=C05 tier=quick
isbool1!(c05_is_bool_v, V);
// @h name=c05_is_bool_n props=C05 tier=quick
isbool1!(c05_is_bool_n, N);

// ---- comparisons: NULL in => NULL out, otherwise the mathematical comparison ----
macro_rules! cmp1 {
    ($name:ident, $O:ident, $S:ident, $t:ty, $na:tt, $nb:tt, $op:tt) => {
        std_attrs! {
            fn $name() {
                let va: $t = kani::any();
                let vb: $t = kani::any();
                let a: Option<$t> = opt!($na, va);
                let b: Option<$t> = opt!($nb, vb);
                let both = match (a, b) { (Some(x), Some(y)) => Some((x, y)), _ => None };
                let r = run_bool!(FlatComparison<$O, $S>, vec![arr1::<$t>(va, isnull!($na)), arr1::<$t>(vb, isnull!($nb))]);
                kani::cover!(true);
                assert!(r == Some(both.map(|(x, y)| x $op y)), "comparison: NULL in => NULL out, else the mathematical comparison");
            }
        }
    };
}
macro_rules! distinct1 {
    ($name:ident, $S:ident, $t:ty, $na:tt, $nb:tt) => {
        std_attrs! {
            fn $name() {
                let va: $t = kani::any();
                let vb: $t = kani::any();
                let a: Option<$t> = opt!($na, va);
                let b: Option<$t> = opt!($nb, vb);
                let d = run_bool!(FlatDistinctComparison<IsDistinctFromOperation, $S>,
                                  vec![arr1::<$t>(va, isnull!($na)), arr1::<$t>(vb, isnull!($nb))]);
                let nd = run_bool!(FlatDistinctComparison<IsNotDistinctFromOperation, $S>,
                                   vec![arr1::<$t>(va, isnull!($na)), arr1::<$t>(vb, isnull!($nb))]);
                kani::cover!(true);
                assert!(d == Some(Some(a != b)), "IS DISTINCT FROM");
                assert!(nd == Some(Some(a == b)), "IS NOT DISTINCT FROM");
            }
        }
    };
}
// @h name=c05_cmp_eq_i32_vv props=C05 tier=quick
cmp1!(c05_cmp_eq_i32_vv, EqOperation, PhysicalI32, i32, V, V, ==);
// @h name=c05_cmp_eq_i32_nv props=C05 tier=thorough
cmp1!(c05_cmp_eq_i32_nv, EqOperation, PhysicalI32, i32, N, V, ==);
// @h name=c05_cmp_eq_i32_vn props=C05 tier=thorough
cmp1!(c05_cmp_eq_i32_vn, EqOperation, PhysicalI32, i32, V, N, ==);
// @h name=c05_cmp_ne_i32_vv props=C05 tier=thorough
cmp1!(c05_cmp_ne_i32_vv, NotEqOperation, PhysicalI32, i32, V, V, !=);
// @h name=c05_cmp_ne_i32_nv props=C05 tier=thorough
cmp1!(c05_cmp_ne_i32_nv, NotEqOperation, PhysicalI32, i32, N, V, !=);
// @h name=c05_cmp_ne_i32_vn props=C05 tier=thorough
cmp1!(c05_cmp_ne_i32_vn, NotEqOperation, PhysicalI32, i32, V, N, !=);
// @h name=c05_cmp_lt_i32_vv props=C05 tier=quick
cmp1!(c05_cmp_lt_i32_vv, LtOperation, PhysicalI32, i32, V, V, <);
// @h name=c05_cmp_lt_i32_nv props=C05 tier=thorough
cmp1!(c05_cmp_lt_i32_nv, LtOperation, PhysicalI32, i32, N, V, <);
// @h name=c05_cmp_lt_i32_vn props=C05 tier=thorough
cmp1!(c05_cmp_lt_i32_vn, LtOperation, PhysicalI32, i32, V, N, <);
// @h name=c05_cmp_le_i32_vv props=C05 tier=thorough
cmp1!(c05_cmp_le_i32_vv, LtEqOperation, PhysicalI32, i32, V, V, <=);
// @h name=c05_cmp_le_i32_nv props=C05 tier=thorough
cmp1!(c05_cmp_le_i32_nv, LtEqOperation, PhysicalI32, i32, N, V, <=);
// @h name=c05_cmp_le_i32_vn props=C05 tier=thorough
cmp1!(c05_cmp_le_i32_vn, LtEqOperation, PhysicalI32, i32, V, N, <=);
// @h name=c05_cmp_gt_i32_vv props=C05 tier=thorough
cmp1!(c05_cmp_gt_i32_vv, GtOperation, PhysicalI32, i32, V, V, >);
// @h name=c05_cmp_gt_i32_nv props=C05 tier=thorough
cmp1!(c05_cmp_gt_i32_nv, GtOperation, PhysicalI32, i32, N, V, >);
// @h name=c05_cmp_gt_i32_vn props=C05 tier=thorough
cmp1!(c05_cmp_gt_i32_vn, GtOperation, PhysicalI32, i32, V, N, >);
// @h name=c05_cmp_ge_i32_vv props=C05 tier=thorough
cmp1!(c05_cmp_ge_i32_vv, GtEqOperation, PhysicalI32, i32, V, V, >=);
// @h name=c05_cmp_ge_i32_nv props=C05 tier=quick
cmp1!(c05_cmp_ge_i32_nv, GtEqOperation, PhysicalI32, i32, N, V, >=);
// @h name=c05_cmp_ge_i32_vn props=C05 tier=thorough
cmp1!(c05_cmp_ge_i32_vn, GtEqOperation, PhysicalI32, i32, V, N, >=);
// @h name=c05_cmp_eq_i8_vv props=C05 tier=thorough
cmp1!(c05_cmp_eq_i8_vv, EqOperation, PhysicalI8, i8, V, V, ==);
// @h name=c05_cmp_ne_i8_vv props=C05 tier=thorough
cmp1!(c05_cmp_ne_i8_vv, NotEqOperation, PhysicalI8, i8, V, V, !=);
// @h name=c05_cmp_lt_i8_vv props=C05 tier=thorough
cmp1!(c05_cmp_lt_i8_vv, LtOperation, PhysicalI8, i8, V, V, <);
// @h name=c05_cmp_le_i8_vv props=C05 tier=thorough
cmp1!(c05_cmp_le_i8_vv, LtEqOperation, PhysicalI8, i8, V, V, <=);
// @h name=c05_cmp_gt_i8_vv props=C05 tier=quick
cmp1!(c05_cmp_gt_i8_vv, GtOperation, PhysicalI8, i8, V, V, >);
// @h name=c05_cmp_ge_i8_vv props=C05 tier=thorough
cmp1!(c05_cmp_ge_i8_vv, GtEqOperation, PhysicalI8, i8, V, V, >=);
// @h name=c05_cmp_eq_i64_vv props=C05 tier=thorough
cmp1!(c05_cmp_eq_i64_vv, EqOperation, PhysicalI64, i64, V, V, ==);
// @h name=c05_cmp_eq_i64_nv props=C05 tier=thorough
cmp1!(c05_cmp_eq_i64_nv, EqOperation, PhysicalI64, i64, N, V, ==);
// @h name=c05_cmp_eq_i64_vn props=C05 tier=thorough
cmp1!(c05_cmp_eq_i64_vn, EqOperation, PhysicalI64, i64, V, N, ==);
// @h name=c05_cmp_ne_i64_vv props=C05 tier=thorough
cmp1!(c05_cmp_ne_i64_vv, NotEqOperation, PhysicalI64, i64, V, V, !=);
// @h name=c05_cmp_ne_i64_nv props=C05 tier=thorough
cmp1!(c05_cmp_ne_i64_nv, NotEqOperation, PhysicalI64, i64, N, V, !=);
// @h name=c05_cmp_ne_i64_vn props=C05 tier=quick
cmp1!(c05_cmp_ne_i64_vn, NotEqOperation, PhysicalI64, i64, V, N, !=);
// @h name=c05_cmp_lt_i64_vv props=C05 tier=thorough
cmp1!(c05_cmp_lt_i64_vv, LtOperation, PhysicalI64, i64, V, V, <);
// @h name=c05_cmp_lt_i64_nv props=C05 tier=thorough
cmp1!(c05_cmp_lt_i64_nv, LtOperation, PhysicalI64, i64, N, V, <);
// @h name=c05_cmp_lt_i64_vn props=C05 tier=thorough
cmp1!(c05_cmp_lt_i64_vn, LtOperation, PhysicalI64, i64, V, N, <);
// @h name=c05_cmp_le_i64_vv props=C05 tier=thorough
cmp1!(c05_cmp_le_i64_vv, LtEqOperation, PhysicalI64, i64, V, V, <=);
// @h name=c05_cmp_le_i64_nv props=C05 tier=thorough
cmp1!(c05_cmp_le_i64_nv, LtEqOperation, PhysicalI64, i64, N, V, <=);
// @h name=c05_cmp_le_i64_vn props=C05 tier=thorough
cmp1!(c05_cmp_le_i64_vn, LtEqOperation, PhysicalI64, i64, V, N, <=);
// @h name=c05_cmp_gt_i64_vv props=C05 tier=thorough
cmp1!(c05_cmp_gt_i64_vv, GtOperation, PhysicalI64, i64, V, V, >);
// @h name=c05_cmp_gt_i64_nv props=C05 tier=thorough
cmp1!(c05_cmp_gt_i64_nv, GtOperation, PhysicalI64, i64, N, V, >);
// @h name=c05_cmp_gt_i64_vn props=C05 tier=thorough
cmp1!(c05_cmp_gt_i64_vn, GtOperation, PhysicalI64, i64, V, N, >);
// @h name=c05_cmp_ge_i64_vv props=C05 tier=thorough
cmp1!(c05_cmp_ge_i64_vv, GtEqOperation, PhysicalI64, i64, V, V, >=);
// @h name=c05_cmp_ge_i64_nv props=C05 tier=thorough
cmp1!(c05_cmp_ge_i64_nv, GtEqOperation, PhysicalI64, i64, N, V, >=);
// @h name=c05_cmp_ge_i64_vn props=C05 tier=thorough
cmp1!(c05_cmp_ge_i64_vn, GtEqOperation, PhysicalI64, i64, V, N, >=);
// @h name=c05_cmp_eq_u64_vv props=C05 tier=thorough
cmp1!(c05_cmp_eq_u64_vv, EqOperation, PhysicalU64, u64, V, V, ==);
// @h name=c05_cmp_ne_u64_vv props=C05 tier=thorough
cmp1!(c05_cmp_ne_u64_vv, NotEqOperation, PhysicalU64, u64, V, V, !=);
// @h name=c05_cmp_lt_u64_vv props=C05 tier=thorough
cmp1!(c05_cmp_lt_u64_vv, LtOperation, PhysicalU64, u64, V, V, <);
// @h name=c05_cmp_le_u64_vv props=C05 tier=quick
cmp1!(c05_cmp_le_u64_vv, LtEqOperation, PhysicalU64, u64, V, V, <=);
// @h name=c05_cmp_gt_u64_vv props=C05 tier=thorough
cmp1!(c05_cmp_gt_u64_vv, GtOperation, PhysicalU64, u64, V, V, >);
// @h name=c05_cmp_ge_u64_vv props=C05 tier=thorough
cmp1!(c05_cmp_ge_u64_vv, GtEqOperation, PhysicalU64, u64, V, V, >=);
// @h name=c05_cmp_eq_i128_vv props=C05 tier=thorough
cmp1!(c05_cmp_eq_i128_vv, EqOperation, PhysicalI128, i128, V, V, ==);
// @h name=c05_cmp_ne_i128_vv props=C05 tier=thorough
cmp1!(c05_cmp_ne_i128_vv, NotEqOperation, PhysicalI128, i128, V, V, !=);
// @h name=c05_cmp_lt_i128_vv props=C05 tier=thorough
cmp1!(c05_cmp_lt_i128_vv, LtOperation, PhysicalI128, i128, V, V, <);
// @h name=c05_cmp_le_i128_vv props=C05 tier=thorough
cmp1!(c05_cmp_le_i128_vv, LtEqOperation, PhysicalI128, i128, V, V, <=);
// @h name=c05_cmp_gt_i128_vv props=C05 tier=thorough
cmp1!(c05_cmp_gt_i128_vv, GtOperation, PhysicalI128, i128, V, V, >);
// @h name=c05_cmp_ge_i128_vv props=C05 tier=thorough
cmp1!(c05_cmp_ge_i128_vv, GtEqOperation, PhysicalI128, i128, V, V, >=);
// @h name=c05_cmp_eq_u8_vv props=C05 tier=thorough
cmp1!(c05_cmp_eq_u8_vv, EqOperation, PhysicalU8, u8, V, V, ==);
// @h name=c05_cmp_ne_u8_vv props=C05 tier=thorough
cmp1!(c05_cmp_ne_u8_vv, NotEqOperation, PhysicalU8, u8, V, V, !=);
// @h name=c05_cmp_lt_u8_vv props=C05 tier=thorough
cmp1!(c05_cmp_lt_u8_vv, LtOperation, PhysicalU8, u8, V, V, <);
// @h name=c05_cmp_le_u8_vv props=C05 tier=thorough
cmp1!(c05_cmp_le_u8_vv, LtEqOperation, PhysicalU8, u8, V, V, <=);
// @h name=c05_cmp_gt_u8_vv props=C05 tier=thorough
cmp1!(c05_cmp_gt_u8_vv, GtOperation, PhysicalU8, u8, V, V, >);
// @h name=c05_cmp_ge_u8_vv props=C05 tier=thorough
cmp1!(c05_cmp_ge_u8_vv, GtEqOperation, PhysicalU8, u8, V, V, >=);
// @h name=c05_cmp_eq_u16_vv props=C05 tier=thorough
cmp1!(c05_cmp_eq_u16_vv, EqOperation, PhysicalU16, u16, V, V, ==);
// @h name=c05_cmp_ne_u16_vv props=C05 tier=thorough
cmp1!(c05_cmp_ne_u16_vv, NotEqOperation, PhysicalU16, u16, V, V, !=);
// @h name=c05_cmp_lt_u16_vv props=C05 tier=thorough
cmp1!(c05_cmp_lt_u16_vv, LtOperation, PhysicalU16, u16, V, V, <);
// @h name=c05_cmp_le_u16_vv props=C05 tier=thorough
cmp1!(c05_cmp_le_u16_vv, LtEqOperation, PhysicalU16, u16, V, V, <=);
// @h name=c05_cmp_gt_u16_vv props=C05 tier=thorough
cmp1!(c05_cmp_gt_u16_vv, GtOperation, PhysicalU16, u16, V, V, >);
// @h name=c05_cmp_ge_u16_vv props=C05 tier=thorough
cmp1!(c05_cmp_ge_u16_vv, GtEqOperation, PhysicalU16, u16, V, V, >=);
// @h name=c05_cmp_eq_i16_vv props=C05 tier=thorough
cmp1!(c05_cmp_eq_i16_vv, EqOperation, PhysicalI16, i16, V, V, ==);
// @h name=c05_cmp_ne_i16_vv props=C05 tier=thorough
cmp1!(c05_cmp_ne_i16_vv, NotEqOperation, PhysicalI16, i16, V, V, !=);
// @h name=c05_cmp_lt_i16_vv props=C05 tier=thorough
cmp1!(c05_cmp_lt_i16_vv, LtOperation, PhysicalI16, i16, V, V, <);
// @h name=c05_cmp_le_i16_vv props=C05 tier=thorough
cmp1!(c05_cmp_le_i16_vv, LtEqOperation, PhysicalI16, i16, V, V, <=);
// @h name=c05_cmp_gt_i16_vv props=C05 tier=thorough
cmp1!(c05_cmp_gt_i16_vv, GtOperation, PhysicalI16, i16, V, V, >);
// @h name=c05_cmp_ge_i16_vv props=C05 tier=thorough
cmp1!(c05_cmp_ge_i16_vv, GtEqOperation, PhysicalI16, i16, V, V, >=);
// @h name=c05_cmp_eq_u32_vv props=C05 tier=thorough
cmp1!(c05_cmp_eq_u32_vv, EqOperation, PhysicalU32, u32, V, V, ==);
// @h name=c05_cmp_ne_u32_vv props=C05 tier=thorough
cmp1!(c05_cmp_ne_u32_vv, NotEqOperation, PhysicalU32, u32, V, V, !=);
// @h name=c05_cmp_lt_u32_vv props=C05 tier=thorough
cmp1!(c05_cmp_lt_u32_vv, LtOperation, PhysicalU32, u32, V, V, <);
// @h name=c05_cmp_le_u32_vv props=C05 tier=thorough
cmp1!(c05_cmp_le_u32_vv, LtEqOperation, PhysicalU32, u32, V, V, <=);
// @h name=c05_cmp_gt_u32_vv props=C05 tier=thorough
cmp1!(c05_cmp_gt_u32_vv, GtOperation, PhysicalU32, u32, V, V, >);
// @h name=c05_cmp_ge_u32_vv props=C05 tier=thorough
cmp1!(c05_cmp_ge_u32_vv, GtEqOperation, PhysicalU32, u32, V, V, >=);
// @h name=c05_cmp_eq_u128_vv props=C05 tier=thorough
cmp1!(c05_cmp_eq_u128_vv, EqOperation, PhysicalU128, u128, V, V, ==);
// @h name=c05_cmp_ne_u128_vv props=C05 tier=thorough
cmp1!(c05_cmp_ne_u128_vv, NotEqOperation, PhysicalU128, u128, V, V, !=);
// @h name=c05_cmp_lt_u128_vv props=C05 tier=thorough
cmp1!(c05_cmp_lt_u128_vv, LtOperation, PhysicalU128, u128, V, V, <);
// @h name=c05_cmp_le_u128_vv props=C05 tier=thorough
cmp1!(c05_cmp_le_u128_vv, LtEqOperation, PhysicalU128, u128, V, V, <=);
// @h name=c05_cmp_gt_u128_vv props=C05 tier=thorough
cmp1!(c05_cmp_gt_u128_vv, GtOperation, PhysicalU128, u128, V, V, >);
// @h name=c05_cmp_ge_u128_vv props=C05 tier=thorough
cmp1!(c05_cmp_ge_u128_vv, GtEqOperation, PhysicalU128, u128, V, V, >=);
// @h name=c05_distinct_i32_vv props=C05 tier=quick
distinct1!(c05_distinct_i32_vv, PhysicalI32, i32, V, V);
// @h name=c05_distinct_i32_nv props=C05 tier=quick
distinct1!(c05_distinct_i32_nv, PhysicalI32, i32, N, V);
// @h name=c05_distinct_i32_vn props=C05 tier=thorough
distinct1!(c05_distinct_i32_vn, PhysicalI32, i32, V, N);
// @h name=c05_distinct_i32_nn props=C05 tier=quick
distinct1!(c05_distinct_i32_nn, PhysicalI32, i32, N, N);
// @h name=c05_distinct_i8_vv props=C05 tier=thorough
distinct1!(c05_distinct_i8_vv, PhysicalI8, i8, V, V);
// @h name=c05_distinct_i8_nv props=C05 tier=thorough
distinct1!(c05_distinct_i8_nv, PhysicalI8, i8, N, V);
// @h name=c05_distinct_i8_vn props=C05 tier=thorough
distinct1!(c05_distinct_i8_vn, PhysicalI8, i8, V, N);
// @h name=c05_distinct_i8_nn props=C05 tier=thorough
distinct1!(c05_distinct_i8_nn, PhysicalI8, i8, N, N);
// @h name=c05_distinct_i64_vv props=C05 tier=thorough
distinct1!(c05_distinct_i64_vv, PhysicalI64, i64, V, V);
// @h name=c05_distinct_i64_nv props=C05 tier=thorough
distinct1!(c05_distinct_i64_nv, PhysicalI64, i64, N, V);
// @h name=c05_distinct_i64_vn props=C05 tier=thorough
distinct1!(c05_distinct_i64_vn, PhysicalI64, i64, V, N);
// @h name=c05_distinct_i64_nn props=C05 tier=thorough
distinct1!(c05_distinct_i64_nn, PhysicalI64, i64, N, N);
// @h name=c05_distinct_u64_vv props=C05 tier=thorough
distinct1!(c05_distinct_u64_vv, PhysicalU64, u64, V, V);
// @h name=c05_distinct_u64_nv props=C05 tier=thorough
distinct1!(c05_distinct_u64_nv, PhysicalU64, u64, N, V);
// @h name=c05_distinct_u64_vn props=C05 tier=thorough
distinct1!(c05_distinct_u64_vn, PhysicalU64, u64, V, N);
// @h name=c05_distinct_u64_nn props=C05 tier=thorough
distinct1!(c05_distinct_u64_nn, PhysicalU64, u64, N, N);
