// @module crate=glaredb_core parent=src/expr/comparison_expr.rs
// @encodes ComparisonOperator::flip, ComparisonOperator::negate
// @bounds all eight operators (enumerated) x all pairs of nullable i32 operands (symbolic, full width); no loops
//! C06 / C02: join-condition extraction swaps the sides of a comparison (`flip`) and filter
//! rewrites negate it (`negate`). For every operator and every operand pair (NULL included):
//! a <op> b = b <flip(op)> a, and a <negate(op)> b = NOT (a <op> b) in three-valued logic.
use super::*;

/// SQL semantics of the operators on nullable ints: None = NULL.
fn sem(op: ComparisonOperator, a: Option<i32>, b: Option<i32>) -> Option<bool> {
    match op {
        ComparisonOperator::IsDistinctFrom => Some(a != b),
        ComparisonOperator::IsNotDistinctFrom => Some(a == b),
        _ => match (a, b) {
            (Some(x), Some(y)) => Some(match op {
                ComparisonOperator::Eq => x == y,
                ComparisonOperator::NotEq => x != y,
                ComparisonOperator::Lt => x < y,
                ComparisonOperator::LtEq => x <= y,
                ComparisonOperator::Gt => x > y,
                _ => x >= y,
            }),
            _ => None,
        },
    }
}

const OPS: [ComparisonOperator; 8] = [
    ComparisonOperator::Eq,
    ComparisonOperator::NotEq,
    ComparisonOperator::Lt,
    ComparisonOperator::LtEq,
    ComparisonOperator::Gt,
    ComparisonOperator::GtEq,
    ComparisonOperator::IsDistinctFrom,
    ComparisonOperator::IsNotDistinctFrom,
];

// @h name=c06_comparison_flip props=C06,C02 tier=quick
#[kani::proof]
#[kani::unwind(10)]
fn c06_comparison_flip() {
    let a: Option<i32> = kani::any();
    let b: Option<i32> = kani::any();
    let mut i = 0;
    while i < 8 {
        let op = OPS[i];
        assert!(sem(op, a, b) == sem(op.flip(), b, a), "a <op> b = b <flip(op)> a for every operand pair");
        i += 1;
    }
    kani::cover!(a.is_none() && b.is_some());
}

// @h name=c06_comparison_negate props=C06,C02 tier=quick
#[kani::proof]
#[kani::unwind(10)]
fn c06_comparison_negate() {
    let a: Option<i32> = kani::any();
    let b: Option<i32> = kani::any();
    let mut i = 0;
    while i < 8 {
        let op = OPS[i];
        assert!(sem(op.negate(), a, b) == sem(op, a, b).map(|v| !v), "a <negate(op)> b = NOT (a <op> b), NULL stays NULL");
        i += 1;
    }
    kani::cover!(a.is_none());
}
