// @module crate=glaredb_core parent=src/execution/operators/nested_loop_join/match_tracker.rs
// @encodes MatchIndexIter::<B>::{new,next,size_hint}, MatchTracker::{ensure_initialized,set_match,set_matches,left_outer_result,right_outer_result,left_semi_result}
// @bounds 4 build/probe rows with symbolic match bits; symbolic left offset 0..=2 with 2-row probe batches; zero-column batches (row accounting); unwind 7
//! C06: the rows an outer / semi / anti join emits for the preserved side are exactly the
//! rows whose match bit is clear (resp. set): each once, in order, and the iterator's
//! announced length (which sizes the selection) equals the number it yields.
#![allow(unused_imports)]
use super::*;
use crate::kani_verif_support::*;

macro_rules! iter_exact {
    ($name:ident, $b:expr) => {
        #[kani::proof]
        #[kani::unwind(7)]
        fn $name() {
            let m: [bool; 4] = kani::any();
            let len: usize = kani::any();
            kani::assume(len <= 4);
            let mut it = MatchIndexIter::<$b>::new(&m[..len]);
            let announced = it.len();
            let mut want = 0usize;
            let mut i = 0;
            while i < len {
                if m[i] == $b {
                    want += 1;
                }
                i += 1;
            }
            assert!(announced == want, "announced length = number of rows with the requested match bit");
            // yields exactly those indices, ascending, then None
            let mut next_expected = 0usize;
            let mut yielded = 0usize;
            let mut k = 0;
            while k < 5 {
                match it.next() {
                    Some(idx) => {
                        assert!(idx < len && m[idx] == $b, "yielded row has the requested match bit");
                        // no row with that bit was skipped
                        let mut j = next_expected;
                        while j < idx {
                            assert!(m[j] != $b, "no qualifying row is skipped");
                            j += 1;
                        }
                        next_expected = idx + 1;
                        yielded += 1;
                    }
                    None => {}
                }
                k += 1;
            }
            kani::cover!(yielded == 2 && len == 4);
            assert!(yielded == want, "every qualifying row is yielded exactly once");
        }
    };
}
// @h name=c06_unmatched_row_iterator props=C06 tier=quick
iter_exact!(c06_unmatched_row_iterator, false);
// @h name=c06_matched_row_iterator props=C06 tier=quick
iter_exact!(c06_matched_row_iterator, true);

// @h name=c06_outer_semi_row_counts props=C06 tier=quick
#[kani::proof]
#[kani::unwind(7)]
#[kani::stub(alloc::fmt::format, crate::kani_verif_support::stub_format)]
#[kani::stub(std::backtrace::Backtrace::capture, crate::kani_verif_support::stub_backtrace)]
fn c06_outer_semi_row_counts() {
    let m: [bool; 4] = kani::any();
    let mut t = MatchTracker::empty();
    t.ensure_initialized(4);
    let mut i = 0;
    while i < 4 {
        if m[i] {
            t.set_match(i);
        }
        i += 1;
    }
    let off: usize = kani::any();
    kani::assume(off <= 2);
    // a 2-row probe batch at offset `off` of the tracked rows
    let unmatched = (!m[off]) as usize + (!m[off + 1]) as usize;
    let mut left = Batch::empty_with_num_rows(2);
    let mut out = Batch::empty_with_num_rows(7);
    assert!(is_ok_forget(t.left_outer_result(off, &mut left, &mut out)));
    assert!(out.num_rows() == unmatched, "LEFT OUTER emits each unmatched probe row exactly once");
    let mut out2 = Batch::empty_with_num_rows(7);
    assert!(is_ok_forget(t.left_semi_result(off, &mut left, &mut out2)));
    assert!(out2.num_rows() == 2 - unmatched, "SEMI emits each matched probe row exactly once");
    let mut right = Batch::empty_with_num_rows(4);
    let mut out3 = Batch::empty_with_num_rows(7);
    assert!(is_ok_forget(t.right_outer_result(&mut right, &mut out3)));
    let all_unmatched = (!m[0]) as usize + (!m[1]) as usize + (!m[2]) as usize + (!m[3]) as usize;
    assert!(out3.num_rows() == all_unmatched, "RIGHT OUTER emits each unmatched build row exactly once");
    kani::cover!(unmatched == 1);
    core::mem::forget(t);
}
