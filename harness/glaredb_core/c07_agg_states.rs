// @module crate=glaredb_core parent=src/functions/aggregate/builtin/mod.rs
// @encodes AggregateState::{update,merge,finalize} of SumStateCheckedAdd<i64,i32>, SumStateCheckedAdd<i64,i64>, SumStateCheckedAdd<i128,i64>, CountNonNullState, MinStatePrimitive<i32>, MaxStatePrimitive<i32>, FirstPrimitiveState<i32>, BoolAndState, BoolOrState, BitAndStatePrimitive<u8>, BitOrStatePrimitive<u8>, AvgStateF64<i64,i128>, PutBuffer::{put,put_null}
// @bounds up to 4 symbolic inputs (symbolic count n <= 4), symbolic split point k <= n into two partial states that are merged; unwind 6
//! C07: the aggregate state algebra. For every input sequence and every split of it into
//! two partial states, finalize(merge(A, B)) equals finalize of the sequentially updated
//! state and equals the mathematical aggregate; the empty input gives NULL (0 for COUNT).
#![allow(unused_imports)]
use crate::arrays::array::physical_type::{AddressableMut, PrimitiveSliceMut};
use crate::arrays::array::validity::Validity;
use crate::arrays::executor::PutBuffer;
use crate::arrays::executor::aggregate::AggregateState;
use crate::functions::aggregate::builtin::avg::AvgStateF64;
use crate::functions::aggregate::builtin::bit_and::BitAndStatePrimitive;
use crate::functions::aggregate::builtin::bit_or::BitOrStatePrimitive;
use crate::functions::aggregate::builtin::bool_and::BoolAndState;
use crate::functions::aggregate::builtin::bool_or::BoolOrState;
use crate::functions::aggregate::builtin::count::CountNonNullState;
use crate::functions::aggregate::builtin::first::FirstPrimitiveState;
use crate::functions::aggregate::builtin::minmax::{MaxStatePrimitive, MinStatePrimitive};
use crate::functions::aggregate::builtin::sum::SumStateCheckedAdd;
use crate::kani_verif_support::*;

const N: usize = 4;

/// finalize into a one-slot buffer: Some(v) / None for NULL.
macro_rules! fin {
    ($st:expr, $o:ty, $zero:expr) => {{
        let mut slot: [$o; 1] = [$zero];
        let mut validity = Validity::new_all_valid(1);
        let mut buf = PrimitiveSliceMut { slice: &mut slot[..] };
        let good = is_ok_forget($st.finalize(&(), PutBuffer::new(0, &mut buf, &mut validity)));
        assert!(good, "finalize does not fail");
        let r = if validity.is_valid(0) { Some(slot[0]) } else { None };
        core::mem::forget(validity);
        r
    }};
}

/// Generic split/merge harness. $oracle: fn(&[I; N], n) -> Option<O> (the mathematical aggregate),
/// $pre: extra precondition on the inputs (healthy region), $inp: how an input is passed to update.
macro_rules! agg_split {
    ($name:ident, $S:ty, $i:ty, $o:ty, $zero:expr, $oracle:expr, $pre:expr) => {
        #[kani::proof]
        #[kani::unwind(6)]
        #[kani::stub(alloc::fmt::format, crate::kani_verif_support::stub_format)]
        #[kani::stub(std::backtrace::Backtrace::capture, crate::kani_verif_support::stub_backtrace)]
        fn $name() {
            let xs: [$i; N] = kani::any();
            let n: usize = kani::any();
            let k: usize = kani::any();
            kani::assume(n <= N && k <= n);
            kani::assume(($pre)(&xs, n));
            let mut seq: $S = Default::default();
            let mut a: $S = Default::default();
            let mut b: $S = Default::default();
            let mut i = 0;
            while i < n {
                assert!(is_ok_forget(seq.update(&(), &xs[i])), "update succeeds in the representable region");
                if i < k {
                    assert!(is_ok_forget(a.update(&(), &xs[i])), "update succeeds in the representable region");
                } else {
                    assert!(is_ok_forget(b.update(&(), &xs[i])), "update succeeds in the representable region");
                }
                i += 1;
            }
            assert!(is_ok_forget(a.merge(&(), &mut b)), "merge succeeds in the representable region");
            let r_seq = fin!(seq, $o, $zero);
            let r_par = fin!(a, $o, $zero);
            let want: Option<$o> = ($oracle)(&xs, n);
            kani::cover!(n == N && k > 0 && k < n);
            kani::cover!(n == 0);
            assert!(r_seq == want, "sequential aggregation equals the mathematical aggregate");
            assert!(r_par == want, "merging two partial states gives the same result as one state (split invariance)");
        }
    };
}

fn no_pre<T>(_xs: &[T; N], _n: usize) -> bool {
    true
}

// ---- SUM ----
fn sum_i32(xs: &[i32; N], n: usize) -> Option<i64> {
    if n == 0 {
        return None;
    }
    let mut s = 0i64;
    let mut i = 0;
    while i < n {
        s += xs[i] as i64;
        i += 1;
    }
    Some(s)
}
// @h name=c07_sum_i32_split props=C07,C12 tier=quick
agg_split!(c07_sum_i32_split, SumStateCheckedAdd<i64, i32>, i32, i64, 0, sum_i32, no_pre::<i32>);

fn sum_i64_wide(xs: &[i64; N], n: usize) -> i128 {
    let mut s = 0i128;
    let mut i = 0;
    while i < n {
        s += xs[i] as i128;
        i += 1;
    }
    s
}
/// every partial sum of every contiguous range fits in i64 (no evaluation order overflows)
fn sum_i64_all_ranges_fit(xs: &[i64; N], n: usize) -> bool {
    let mut lo = 0;
    while lo < N {
        let mut s = 0i128;
        let mut hi = lo;
        while hi < N {
            if hi < n {
                s += xs[hi] as i128;
                if s > i64::MAX as i128 || s < i64::MIN as i128 {
                    return false;
                }
            }
            hi += 1;
        }
        lo += 1;
    }
    true
}
fn sum_i64(xs: &[i64; N], n: usize) -> Option<i64> {
    if n == 0 { None } else { Some(sum_i64_wide(xs, n) as i64) }
}
// @h name=c07_sum_i64_split props=C07,C12 tier=quick
agg_split!(c07_sum_i64_split, SumStateCheckedAdd<i64, i64>, i64, i64, 0, sum_i64, sum_i64_all_ranges_fit);

fn sum_i64_to_i128(xs: &[i64; N], n: usize) -> Option<i128> {
    if n == 0 { None } else { Some(sum_i64_wide(xs, n)) }
}
// @h name=c07_sum_dec64_split props=C07,C12 tier=thorough
agg_split!(c07_sum_dec64_split, SumStateCheckedAdd<i128, i64>, i64, i128, 0, sum_i64_to_i128, no_pre::<i64>);

/// SUM overflow: when the running sum leaves i64 the aggregate must fail - never a wrong value.
// @h name=c07_sum_i64_overflow_is_error props=C07,C12 tier=quick
#[kani::proof]
#[kani::unwind(6)]
#[kani::stub(alloc::fmt::format, crate::kani_verif_support::stub_format)]
#[kani::stub(std::backtrace::Backtrace::capture, crate::kani_verif_support::stub_backtrace)]
fn c07_sum_i64_overflow_is_error() {
    let x: i64 = kani::any();
    let y: i64 = kani::any();
    kani::assume(x.checked_add(y).is_none());
    let mut st: SumStateCheckedAdd<i64, i64> = Default::default();
    let ok1 = is_ok_forget(st.update(&(), &x));
    let ok2 = is_ok_forget(st.update(&(), &y));
    kani::cover!(true);
    let r = fin!(st, i64, 0);
    // acceptable: an error from update, or (leniently) NULL; never a number
    assert!(!(ok1 && ok2) || r.is_none(), "SUM that overflows must fail, not return a wrong number");
}

// ---- COUNT ----
// @h name=c07_count_split props=C07 tier=quick
#[kani::proof]
#[kani::unwind(6)]
#[kani::stub(alloc::fmt::format, crate::kani_verif_support::stub_format)]
#[kani::stub(std::backtrace::Backtrace::capture, crate::kani_verif_support::stub_backtrace)]
fn c07_count_split() {
    let n: usize = kani::any();
    let k: usize = kani::any();
    kani::assume(n <= N && k <= n);
    let mut seq = CountNonNullState::default();
    let mut a = CountNonNullState::default();
    let mut b = CountNonNullState::default();
    let mut i = 0;
    while i < n {
        assert!(is_ok_forget(seq.update(&(), &())));
        if i < k {
            assert!(is_ok_forget(a.update(&(), &())));
        } else {
            assert!(is_ok_forget(b.update(&(), &())));
        }
        i += 1;
    }
    assert!(is_ok_forget(a.merge(&(), &mut b)));
    kani::cover!(n == N && k == 2);
    assert!(fin!(seq, i64, -1) == Some(n as i64), "COUNT counts every row; empty input gives 0");
    assert!(fin!(a, i64, -1) == Some(n as i64), "COUNT is split invariant");
}

// ---- MIN / MAX / FIRST ----
fn min_i32(xs: &[i32; N], n: usize) -> Option<i32> {
    let mut m: Option<i32> = None;
    let mut i = 0;
    while i < n {
        m = Some(match m { Some(v) if v <= xs[i] => v, _ => xs[i] });
        i += 1;
    }
    m
}
fn max_i32(xs: &[i32; N], n: usize) -> Option<i32> {
    let mut m: Option<i32> = None;
    let mut i = 0;
    while i < n {
        m = Some(match m { Some(v) if v >= xs[i] => v, _ => xs[i] });
        i += 1;
    }
    m
}
fn first_i32(xs: &[i32; N], n: usize) -> Option<i32> {
    if n == 0 { None } else { Some(xs[0]) }
}
// @h name=c07_min_i32_split props=C07 tier=quick
agg_split!(c07_min_i32_split, MinStatePrimitive<i32>, i32, i32, 0, min_i32, no_pre::<i32>);
// @h name=c07_max_i32_split props=C07 tier=quick
agg_split!(c07_max_i32_split, MaxStatePrimitive<i32>, i32, i32, 0, max_i32, no_pre::<i32>);
// @h name=c07_first_i32_split props=C07 tier=thorough
agg_split!(c07_first_i32_split, FirstPrimitiveState<i32>, i32, i32, 0, first_i32, no_pre::<i32>);

// ---- BOOL_AND / BOOL_OR / BIT_AND / BIT_OR ----
fn and_bool(xs: &[bool; N], n: usize) -> Option<bool> {
    if n == 0 { return None; }
    let mut r = true;
    let mut i = 0;
    while i < n { r = r && xs[i]; i += 1; }
    Some(r)
}
fn or_bool(xs: &[bool; N], n: usize) -> Option<bool> {
    if n == 0 { return None; }
    let mut r = false;
    let mut i = 0;
    while i < n { r = r || xs[i]; i += 1; }
    Some(r)
}
fn and_u8(xs: &[u8; N], n: usize) -> Option<u8> {
    if n == 0 { return None; }
    let mut r = 0xffu8;
    let mut i = 0;
    while i < n { r &= xs[i]; i += 1; }
    Some(r)
}
fn or_u8(xs: &[u8; N], n: usize) -> Option<u8> {
    if n == 0 { return None; }
    let mut r = 0u8;
    let mut i = 0;
    while i < n { r |= xs[i]; i += 1; }
    Some(r)
}
// @h name=c07_bool_and_split props=C07 tier=quick
agg_split!(c07_bool_and_split, BoolAndState, bool, bool, false, and_bool, no_pre::<bool>);
// @h name=c07_bool_or_split props=C07 tier=thorough
agg_split!(c07_bool_or_split, BoolOrState, bool, bool, false, or_bool, no_pre::<bool>);
// @h name=c07_bit_and_split props=C07 tier=quick
agg_split!(c07_bit_and_split, BitAndStatePrimitive<u8>, u8, u8, 0, and_u8, no_pre::<u8>);
// @h name=c07_bit_or_split props=C07 tier=thorough
agg_split!(c07_bit_or_split, BitOrStatePrimitive<u8>, u8, u8, 0, or_u8, no_pre::<u8>);

// ---- AVG over BIGINT (i128 accumulator): exact sum / count, split invariant ----
fn avg_i64(xs: &[i64; N], n: usize) -> Option<f64> {
    if n == 0 { None } else { Some(sum_i64_wide(xs, n) as f64 / n as f64) }
}
// @h name=c07_avg_i64_split props=C07,C12 tier=thorough
#[kani::proof]
#[kani::unwind(6)]
#[kani::stub(alloc::fmt::format, crate::kani_verif_support::stub_format)]
#[kani::stub(std::backtrace::Backtrace::capture, crate::kani_verif_support::stub_backtrace)]
fn c07_avg_i64_split() {
    let xs: [i64; N] = kani::any();
    let n: usize = kani::any();
    let k: usize = kani::any();
    kani::assume(n <= N && k <= n);
    let mut seq: AvgStateF64<i64, i128> = Default::default();
    let mut a: AvgStateF64<i64, i128> = Default::default();
    let mut b: AvgStateF64<i64, i128> = Default::default();
    let mut i = 0;
    while i < n {
        assert!(is_ok_forget(seq.update(&(), &xs[i])));
        if i < k {
            assert!(is_ok_forget(a.update(&(), &xs[i])));
        } else {
            assert!(is_ok_forget(b.update(&(), &xs[i])));
        }
        i += 1;
    }
    assert!(is_ok_forget(a.merge(&(), &mut b)));
    let r_seq = fin!(seq, f64, 0.0);
    let r_par = fin!(a, f64, 0.0);
    let want = avg_i64(&xs, n);
    kani::cover!(n == N && k == 1);
    match (r_seq, r_par, want) {
        (None, None, None) => {}
        (Some(x), Some(y), Some(w)) => {
            assert!(x.to_bits() == y.to_bits(), "AVG is split invariant (integer accumulator: bit-identical)");
            assert!(x.to_bits() == w.to_bits(), "AVG = exact sum / count, correctly rounded once");
        }
        _ => assert!(false, "NULL exactly for the empty input"),
    }
}
