// @module crate=glaredb_core parent=src/arrays/sort/heap_compare.rs
// @encodes compare_heap_values (Utf8/Binary), StringPtr::{new_inline,new_reference,as_bytes}, compare_heap_value_supported
// @bounds two strings with symbolic bytes; lengths concrete per harness, chosen around the 12-byte inline threshold and beyond the 12-byte sort-key prefix; unwind 20
//! C08: rows whose 12-byte prefix keys tie are ordered by `compare_heap_values`; it must be
//! the byte-wise order of the full values (shorter string first on a common prefix), for
//! inline and out-of-line representations alike.
use super::*;
use crate::kani_verif_support::*;

macro_rules! heap_cmp {
    ($name:ident, $la:expr, $lb:expr) => {
        #[kani::proof]
        #[kani::unwind(20)]
        #[kani::stub(alloc::fmt::format, crate::kani_verif_support::stub_format)]
        #[kani::stub(std::backtrace::Backtrace::capture, crate::kani_verif_support::stub_backtrace)]
        fn $name() {
            let a: [u8; $la] = kani::any();
            let b: [u8; $lb] = kani::any();
            // the interesting case: equal 12-byte prefixes (the key comparison tied)
            let pa = if $la <= 12 { StringPtr::new_inline(&a) } else { StringPtr::new_reference(&a) };
            let pb = if $lb <= 12 { StringPtr::new_inline(&b) } else { StringPtr::new_reference(&b) };
            let r = unsafe { compare_heap_values((&pa as *const StringPtr).cast::<u8>(), (&pb as *const StringPtr).cast::<u8>(), PhysicalType::Utf8) };
            let got = match r { Ok(o) => o, Err(e) => { core::mem::forget(e); panic!("comparison failed") } };
            let want = memcmp(&a, &b);
            kani::cover!(want == cmp::Ordering::Less);
            kani::cover!(want == cmp::Ordering::Equal || $la != $lb);
            assert!(got == want, "heap comparison = byte-wise order of the full values");
            assert!(compare_heap_value_supported(PhysicalType::Utf8) && compare_heap_value_supported(PhysicalType::Binary), "both varlen types are comparable");
        }
    };
}
// @h name=c08_heap_compare_13_14 props=C08,C16 tier=quick
heap_cmp!(c08_heap_compare_13_14, 13, 14);
// @h name=c08_heap_compare_12_13 props=C08,C16 tier=quick
heap_cmp!(c08_heap_compare_12_13, 12, 13);
// @h name=c08_heap_compare_14_14 props=C08,C16 tier=thorough
heap_cmp!(c08_heap_compare_14_14, 14, 14);
// @h name=c08_heap_compare_3_12 props=C08,C16 tier=thorough
heap_cmp!(c08_heap_compare_3_12, 3, 12);
// @h name=c08_heap_compare_0_13 props=C08,C16 tier=thorough
heap_cmp!(c08_heap_compare_0_13, 0, 13);
