// @module crate=glaredb_core parent=src/arrays/sort/binary_merge.rs
// @encodes BinaryMerger::compare_heap_key, compare_heap_values, RowLayout::validity_buffer, StringPtr::as_bytes
// @bounds one Utf8 key column (symbolic desc / nulls_first); one heap row per side holding a 13-byte (out-of-line) value with symbolic bytes, both valid; SortLayout / RowLayout / SortedSegment are built field by field (their constructors recurse over DataType and do not fit the cap); unwind 16
//! C08: when two sort keys tie on their 12-byte prefix the merge decides by the heap value,
//! and for a DESC key the heap order must be reversed just like the key bytes were inverted.
use super::*;
use crate::arrays::datatype::DataType;
use crate::arrays::sort::sort_layout::SortColumn;
use crate::arrays::string::StringPtr;
use crate::buffer::buffer_manager::DefaultBufferManager;
use crate::kani_verif_support::*;

fn heap_segment(value: &[u8; 13]) -> SortedSegment {
    // heap row layout for one Utf8 column: [validity byte][16-byte StringPtr]
    let mut block = ok(Block::try_new_reserve_all(&DefaultBufferManager, 17));
    let p = block.as_mut_ptr();
    unsafe {
        p.write(1); // column 0 valid
        p.add(1).cast::<StringPtr>().write_unaligned(StringPtr::new_reference(value));
    }
    SortedSegment { keys: Vec::new(), heap_keys: vec![block], heap_keys_heap: Vec::new(), data: Vec::new(), data_heap: Vec::new() }
}

// @h name=c08_merge_heap_key_desc props=C08 tier=quick
#[kani::proof]
#[kani::unwind(16)]
#[kani::stub(alloc::fmt::format, crate::kani_verif_support::stub_format)]
#[kani::stub(std::backtrace::Backtrace::capture, crate::kani_verif_support::stub_backtrace)]
fn c08_merge_heap_key_desc() {
    let desc: bool = kani::any();
    let a: [u8; 13] = kani::any();
    let b: [u8; 13] = kani::any();
    let layout = SortLayout {
        columns: vec![SortColumn { desc, nulls_first: kani::any(), datatype: DataType::utf8() }],
        column_widths: vec![13],
        offsets: vec![0],
        compare_width: 13,
        row_width: 17,
        heap_layout: RowLayout { types: vec![DataType::utf8()], offsets: vec![1], row_width: 17, requires_heap: true, validity_width: 1 },
        heap_mapping: vec![Some(0)],
    };
    let left = heap_segment(&a);
    let right = heap_segment(&b);
    let ls = ScanState { block_idx: 0, row_idx: 0, remaining: 1 };
    let rs = ScanState { block_idx: 0, row_idx: 0, remaining: 1 };
    let r = BinaryMerger::compare_heap_key(&layout, 0, &ls, &rs, &left, &right);
    let got = match r { Ok(o) => o, Err(e) => { core::mem::forget(e); panic!("compare_heap_key failed") } };
    let natural = memcmp(&a, &b);
    let want = if desc { natural.reverse() } else { natural };
    kani::cover!(desc && natural == Ordering::Less);
    assert!(got == want, "heap tie-break follows the key's direction (reversed for DESC)");
    core::mem::forget(layout);
    core::mem::forget(left);
    core::mem::forget(right);
}
