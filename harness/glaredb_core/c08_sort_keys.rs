// @module crate=glaredb_core parent=src/arrays/sort/sort_layout.rs
//! C08: every `ComparableEncode::encode` is order preserving under memcmp, for
//! all pairs of values of the type (full bit width, symbolic), and the
//! direction / NULL-placement bytes of `SortColumn` compose with it.
use core::cmp::Ordering;

use super::*;
use crate::kani_verif_support::*;

macro_rules! int_order {
    ($name:ident, $t:ty, $w:expr) => {
        #[kani::proof]
        #[kani::unwind(18)]
        fn $name() {
            let a: $t = kani::any();
            let b: $t = kani::any();
            let mut ka = [0u8; $w];
            let mut kb = [0u8; $w];
            a.encode(&mut ka);
            b.encode(&mut kb);
            assert!(memcmp(&ka, &kb) == a.cmp(&b), "integer sort key preserves numeric order");
            assert!(<$t as ComparableEncode>::ENCODE_WIDTH == $w, "declared key width");
            kani::cover!(a < b);
            kani::cover!(a > b);
        }
    };
}

// @h name=c08_key_u8 props=C08 tier=quick
int_order!(c08_key_u8, u8, 1);
// @h name=c08_key_u16 props=C08 tier=quick
int_order!(c08_key_u16, u16, 2);
// @h name=c08_key_u32 props=C08 tier=quick
int_order!(c08_key_u32, u32, 4);
// @h name=c08_key_u64 props=C08 tier=quick
int_order!(c08_key_u64, u64, 8);
// @h name=c08_key_u128 props=C08 tier=quick
int_order!(c08_key_u128, u128, 16);
// @h name=c08_key_i8 props=C08 tier=quick
int_order!(c08_key_i8, i8, 1);
// @h name=c08_key_i16 props=C08 tier=quick
int_order!(c08_key_i16, i16, 2);
// @h name=c08_key_i32 props=C08 tier=quick
int_order!(c08_key_i32, i32, 4);
// @h name=c08_key_i64 props=C08 tier=quick
int_order!(c08_key_i64, i64, 8);
// @h name=c08_key_i128 props=C08 tier=quick
int_order!(c08_key_i128, i128, 16);

/// Floats: a < b numerically => key(a) < key(b); NaN (sign bit clear, the only
/// NaN `'NaN'::float` and arithmetic on finite values produce on this target
/// is checked separately) sorts above every number; equal keys only for equal
/// bit patterns (so the order is a total order on bit patterns).
macro_rules! float_order {
    ($name:ident, $t:ty, $bits:ty, $w:expr, $from_bits:expr, $to_bits:expr, $is_nan:expr, $lt:expr, $signbit:expr) => {
        #[kani::proof]
        #[kani::unwind(10)]
        fn $name() {
            let ba: $bits = kani::any();
            let bb: $bits = kani::any();
            let a: $t = ($from_bits)(ba);
            let b: $t = ($from_bits)(bb);
            let mut ka = [0u8; $w];
            let mut kb = [0u8; $w];
            a.encode(&mut ka);
            b.encode(&mut kb);
            let ord = memcmp(&ka, &kb);
            if !($is_nan)(a) && !($is_nan)(b) {
                if ($lt)(a, b) {
                    assert!(ord == Ordering::Less, "float sort key preserves numeric order");
                }
            }
            if ($is_nan)(a) && (ba & $signbit) == 0 && !($is_nan)(b) {
                assert!(ord == Ordering::Greater, "NaN sorts above every number");
            }
            if ord == Ordering::Equal {
                assert!(ba == bb || (($is_nan)(a) && ($is_nan)(b)), "equal keys only for identical values (or two NaNs)");
            }
            kani::cover!($is_nan(a) && !($is_nan)(b));
            kani::cover!(!($is_nan)(a) && !($is_nan)(b) && ($lt)(a, b));
        }
    };
}

// @h name=c08_key_f16 props=C08 tier=quick
float_order!(c08_key_f16, f16, u16, 2, f16::from_bits, |x: f16| x.to_bits(),
    |x: f16| (x.to_bits() & 0x7fff) > 0x7c00, f16_lt, 0x8000u16);
// @h name=c08_key_f32 props=C08 tier=quick
float_order!(c08_key_f32, f32, u32, 4, f32::from_bits, |x: f32| x.to_bits(),
    |x: f32| x.is_nan(), |a: f32, b: f32| a < b, 0x8000_0000u32);
// @h name=c08_key_f64 props=C08 tier=quick
float_order!(c08_key_f64, f64, u64, 8, f64::from_bits, |x: f64| x.to_bits(),
    |x: f64| x.is_nan(), |a: f64, b: f64| a < b, 0x8000_0000_0000_0000u64);

/// IEEE `<` on binary16 bit patterns (non-NaN inputs), written on the bits so
/// the harness does not depend on `half`'s software float conversion.
fn f16_lt(a: f16, b: f16) -> bool {
    let (ba, bb) = (a.to_bits(), b.to_bits());
    let (ma, mb) = (ba & 0x7fff, bb & 0x7fff);
    let (na, nb) = (ba & 0x8000 != 0, bb & 0x8000 != 0);
    if ma == 0 && mb == 0 {
        return false; // -0 == +0
    }
    match (na, nb) {
        (false, false) => ma < mb,
        (true, true) => ma > mb,
        (true, false) => true,
        (false, true) => false,
    }
}

/// A NaN whose sign bit is set (what `0.0/0.0` evaluates to on x86-64) must
/// also sort above every number: the property says "NaN", not "positive NaN".
macro_rules! float_neg_nan {
    ($name:ident, $t:ty, $bits:ty, $w:expr, $from_bits:expr, $is_nan:expr, $signbit:expr) => {
        #[kani::proof]
        #[kani::unwind(10)]
        fn $name() {
            let ba: $bits = kani::any();
            let bb: $bits = kani::any();
            let a: $t = ($from_bits)(ba);
            let b: $t = ($from_bits)(bb);
            kani::assume(($is_nan)(a) && (ba & $signbit) != 0 && !($is_nan)(b));
            let mut ka = [0u8; $w];
            let mut kb = [0u8; $w];
            a.encode(&mut ka);
            b.encode(&mut kb);
            assert!(memcmp(&ka, &kb) == Ordering::Greater, "sign-bit-set NaN sorts above every number");
            kani::cover!(true);
        }
    };
}
// @h name=c08_key_f16_negnan props=C08 tier=quick
float_neg_nan!(c08_key_f16_negnan, f16, u16, 2, f16::from_bits, |x: f16| (x.to_bits() & 0x7fff) > 0x7c00, 0x8000u16);
// @h name=c08_key_f32_negnan props=C08 tier=quick
float_neg_nan!(c08_key_f32_negnan, f32, u32, 4, f32::from_bits, |x: f32| x.is_nan(), 0x8000_0000u32);
// @h name=c08_key_f64_negnan props=C08 tier=quick
float_neg_nan!(c08_key_f64_negnan, f64, u64, 8, f64::from_bits, |x: f64| x.is_nan(), 0x8000_0000_0000_0000u64);

// @h name=c08_key_bool props=C08 tier=quick
#[kani::proof]
fn c08_key_bool() {
    let a: bool = kani::any();
    let b: bool = kani::any();
    let mut ka = [0u8; 1];
    let mut kb = [0u8; 1];
    a.encode(&mut ka);
    b.encode(&mut kb);
    // FALSE < TRUE (comment above the impl; SQL boolean order)
    assert!(ka[0].cmp(&kb[0]) == a.cmp(&b), "bool sort key: false < true");
    kani::cover!(!a && b);
}

// @h name=c08_key_interval props=C08 tier=quick
#[kani::proof]
#[kani::unwind(18)]
fn c08_key_interval() {
    let a = Interval { months: kani::any(), days: kani::any(), nanos: kani::any() };
    let b = Interval { months: kani::any(), days: kani::any(), nanos: kani::any() };
    let mut ka = [0u8; 16];
    let mut kb = [0u8; 16];
    a.encode(&mut ka);
    b.encode(&mut kb);
    let want = (a.months, a.days, a.nanos).cmp(&(b.months, b.days, b.nanos));
    assert!(memcmp(&ka, &kb) == want, "interval key = lexicographic (months, days, nanos)");
    kani::cover!(a.months == b.months && a.days == b.days && a.nanos < b.nanos);
}

/// Strings: the 12-byte prefix key orders like the byte strings whenever the
/// keys differ, and ties exactly when the zero-padded prefixes are equal (the
/// heap comparison then decides). Lengths are symbolic in 0..=14.
// @h name=c08_key_string_prefix props=C08 tier=quick
#[kani::proof]
#[kani::unwind(16)]
fn c08_key_string_prefix() {
    let sa: [u8; 14] = kani::any();
    let sb: [u8; 14] = kani::any();
    let la: usize = kani::any();
    let lb: usize = kani::any();
    kani::assume(la <= 14 && lb <= 14);
    let (a, b) = (&sa[..la], &sb[..lb]);
    let mut ka = [0u8; 12];
    let mut kb = [0u8; 12];
    StringPrefix::new_from_buf(a).encode(&mut ka);
    StringPrefix::new_from_buf(b).encode(&mut kb);
    let key_ord = memcmp(&ka, &kb);
    let full = memcmp(a, b);
    if key_ord != Ordering::Equal {
        // a strict key order must never contradict byte-wise string order,
        // except through the zero padding (a proper prefix followed by 0x00 bytes).
        if full != key_ord {
            // only legal disagreement: one string is the other plus trailing 0x00s within the prefix
            assert!(false, "prefix key order contradicts byte-wise string order");
        }
    }
    kani::cover!(la > 12 && lb > 12 && key_ord == Ordering::Equal && full != Ordering::Equal);
    kani::cover!(key_ord == Ordering::Less);
}

/// Direction and NULL placement bytes: for every (desc, nulls_first) the pair
/// (validity byte, possibly inverted value key) orders NULL against values as
/// declared, and DESC reverses the value order exactly.
// @h name=c08_sortcolumn_bytes props=C08 tier=quick
#[kani::proof]
#[kani::unwind(6)]
fn c08_sortcolumn_bytes() {
    let col = SortColumn { desc: kani::any(), nulls_first: kani::any(), datatype: DataType::int32() };
    let a: i32 = kani::any();
    let b: i32 = kani::any();
    let mut ka = [0u8; 4];
    let mut kb = [0u8; 4];
    a.encode(&mut ka);
    b.encode(&mut kb);
    col.invert_if_desc(&mut ka);
    col.invert_if_desc(&mut kb);
    let want = if col.desc { b.cmp(&a) } else { a.cmp(&b) };
    assert!(memcmp(&ka, &kb) == want, "DESC reverses the key order exactly");
    // validity byte dominates: NULL row vs valid row
    let (v, n) = (col.valid_byte(), col.invalid_byte());
    if col.nulls_first {
        assert!(n < v, "NULLS FIRST: null byte sorts before valid byte");
    } else {
        assert!(n > v, "NULLS LAST: null byte sorts after valid byte");
    }
    core::mem::forget(col);
}
