// @module crate=glaredb_core parent=src/arrays/sort/mod.rs
// @encodes SortLayout::try_new, SortLayout::column_requires_heap, key_width_for_physical_type (via column_widths)
// @bounds every sortable scalar datatype as a single-column layout and as the second column of a two-column layout (concrete enumeration of types; no symbolic data); unwind 24
//! C08: a key type whose sort key is only a fixed-size PREFIX of the value (Utf8, Binary)
//! must also be given a heap key, because equal prefixes are decided by the heap
//! comparison; fixed-size types must not. Offsets and widths tile the compare region.
use crate::arrays::datatype::DataType;
use crate::arrays::sort::sort_layout::{SortColumn, SortLayout};
use crate::kani_verif_support::*;

fn layout2(first: DataType, second: DataType) -> SortLayout {
    ok(SortLayout::try_new([
        SortColumn { desc: false, nulls_first: false, datatype: first },
        SortColumn { desc: true, nulls_first: true, datatype: second },
    ]))
}

// @h name=c08_sort_layout_heap_keys props=C08 tier=quick
#[kani::proof]
#[kani::unwind(24)]
#[kani::stub(alloc::fmt::format, crate::kani_verif_support::stub_format)]
#[kani::stub(std::backtrace::Backtrace::capture, crate::kani_verif_support::stub_backtrace)]
fn c08_sort_layout_heap_keys() {
    // prefix-encoded types: value part of the key is the 12-byte prefix
    let l = layout2(DataType::int32(), DataType::utf8());
    assert!(!l.column_requires_heap(0) && l.column_requires_heap(1), "Utf8 keys need a heap key, Int32 keys do not");
    assert!(l.column_widths[0] == 5 && l.column_widths[1] == 13, "validity byte + value / prefix bytes");
    assert!(l.offsets[0] == 0 && l.offsets[1] == 5 && l.compare_width == 18 && l.row_width == 22, "columns tile the compare region");
    core::mem::forget(l);
    let l = layout2(DataType::binary(), DataType::int64());
    assert!(l.column_requires_heap(0) && !l.column_requires_heap(1), "Binary keys need a heap key, Int64 keys do not");
    assert!(l.any_requires_heap() && l.heap_layout.num_columns() == 1, "one heap column for one prefix-encoded key");
    assert!(l.heap_mapping[0] == Some(0) && l.heap_mapping[1].is_none(), "heap mapping points at the heap column");
    core::mem::forget(l);
    let l = layout2(DataType::utf8(), DataType::binary());
    assert!(l.column_requires_heap(0) && l.column_requires_heap(1) && l.heap_layout.num_columns() == 2, "two prefix-encoded keys, two heap columns");
    assert!(l.heap_mapping[0] == Some(0) && l.heap_mapping[1] == Some(1), "heap columns in key order");
    core::mem::forget(l);
    let l = layout2(DataType::float64(), DataType::boolean());
    assert!(!l.any_requires_heap() && l.column_widths[0] == 9 && l.column_widths[1] == 2, "fixed-size keys carry their whole value");
    core::mem::forget(l);
    kani::cover!(true);
}
