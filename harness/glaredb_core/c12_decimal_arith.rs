// @module crate=glaredb_core parent=src/functions/scalar/builtin/arith/mod.rs
// @encodes DecimalAdd::<Decimal64Type>::execute, DecimalSub::<Decimal64Type>::execute, DecimalMul::<Decimal64Type>::execute, BinaryExecutor::execute
// @bounds one-row Decimal64 arrays (unscaled i64), operands symbolic within a valid DECIMAL(18,s) (|x| < 10^18); result type DECIMAL(18,s) (the cap bind() applies); unwind 3
//! C12: decimal +, -, * on the unscaled representation: the result is the exact unscaled
//! result when it fits the announced precision, otherwise the statement must fail - it must
//! not return a value with more digits than DECIMAL(18,s) allows, wrap, or crash.
#![allow(unused_imports)]
use super::*;
use crate::arrays::array::Array;
use crate::arrays::array::physical_type::*;
use crate::arrays::batch::Batch;
use crate::arrays::datatype::{DataType, DecimalTypeMeta};
use crate::arrays::scalar::decimal::Decimal64Type;
use crate::buffer::buffer_manager::DefaultBufferManager;
use crate::functions::scalar::ScalarFunction;
use crate::kani_verif_support::*;
use crate::util::iter::TryFromExactSizeIterator;

const P18: i128 = 1_000_000_000_000_000_000;

macro_rules! dec_op {
    ($exact:ident, $err:ident, $F:ident, $op:tt, $small:expr) => {
        #[kani::proof]
        #[kani::unwind(3)]
        #[kani::stub(alloc::fmt::format, crate::kani_verif_support::stub_format)]
        #[kani::stub(std::backtrace::Backtrace::capture, crate::kani_verif_support::stub_backtrace)]
        fn $exact() {
            let a: i64 = kani::any();
            let b: i64 = kani::any();
            kani::assume((a as i128) > -P18 && (a as i128) < P18 && (b as i128) > -P18 && (b as i128) < P18);
            if $small {
                kani::assume(a > -(1 << 20) && a < (1 << 20)); // multiplication: keep one operand narrow (solver cost)
            }
            let exact: i128 = (a as i128) $op (b as i128);
            kani::assume(exact > -P18 && exact < P18);
            let batch = Batch { arrays: vec![ok(Array::try_from_iter([a])), ok(Array::try_from_iter([b]))], num_rows: 1, cache: None };
            let mut out = ok(Array::new(&DefaultBufferManager, DataType::decimal64(DecimalTypeMeta::new(18, 2)), 1));
            let good = is_ok_forget(<$F<Decimal64Type> as ScalarFunction>::execute(&(), &batch, &mut out));
            kani::cover!(good);
            assert!(good && out.validity.is_valid(0), "a result that fits the announced precision is a value");
            assert!(ok(PhysicalI64::get_addressable(&out.data)).slice[0] as i128 == exact, "exact unscaled result");
            core::mem::forget(batch);
            core::mem::forget(out);
        }

        #[kani::proof]
        #[kani::unwind(3)]
        #[kani::stub(alloc::fmt::format, crate::kani_verif_support::stub_format)]
        #[kani::stub(std::backtrace::Backtrace::capture, crate::kani_verif_support::stub_backtrace)]
        fn $err() {
            let a: i64 = kani::any();
            let b: i64 = kani::any();
            kani::assume((a as i128) > -P18 && (a as i128) < P18 && (b as i128) > -P18 && (b as i128) < P18);
            if $small {
                kani::assume(a > -(1 << 20) && a < (1 << 20));
            }
            let exact: i128 = (a as i128) $op (b as i128);
            kani::assume(exact <= -P18 || exact >= P18);
            let batch = Batch { arrays: vec![ok(Array::try_from_iter([a])), ok(Array::try_from_iter([b]))], num_rows: 1, cache: None };
            let mut out = ok(Array::new(&DefaultBufferManager, DataType::decimal64(DecimalTypeMeta::new(18, 2)), 1));
            kani::cover!(true);
            let good = is_ok_forget(<$F<Decimal64Type> as ScalarFunction>::execute(&(), &batch, &mut out));
            assert!(!good, "a result with more digits than DECIMAL(18,s) allows must be an error");
            core::mem::forget(batch);
            core::mem::forget(out);
        }
    };
}
// @h name=c12_decimal64_add_exact props=C12 tier=quick
// @h name=c12_decimal64_add_exceeds_precision props=C12 tier=quick
dec_op!(c12_decimal64_add_exact, c12_decimal64_add_exceeds_precision, DecimalAdd, +, false);
// @h name=c12_decimal64_sub_exact props=C12 tier=thorough
// @h name=c12_decimal64_sub_exceeds_precision props=C12 tier=thorough
dec_op!(c12_decimal64_sub_exact, c12_decimal64_sub_exceeds_precision, DecimalSub, -, false);
// @h name=c12_decimal64_mul_exact props=C12 tier=thorough
// @h name=c12_decimal64_mul_exceeds_precision props=C12,C15 tier=thorough
dec_op!(c12_decimal64_mul_exact, c12_decimal64_mul_exceeds_precision, DecimalMul, *, true);
