// @module crate=glaredb_core parent=src/functions/scalar/builtin/numeric/mod.rs
// @encodes Gcd::<PhysicalI8>::execute, Lcm::<PhysicalI8>::execute (Euclid loops), BinaryExecutor::execute
// @bounds one-row arrays, full-width symbolic i8 operands; oracle: brute-force greatest common divisor over 1..=127 (definition); unwind 130 (Euclid on i8 needs <= 12 iterations, the oracle loop 127)
//! C12: gcd / lcm equal their mathematical definition whenever the result is representable
//! ("*_exact"); when it is not (|MIN|, or an lcm that does not fit) the statement must fail
//! with an error rather than panic or wrap ("*_err").
#![allow(unused_imports)]
use crate::arrays::array::Array;
use crate::arrays::array::physical_type::*;
use crate::arrays::batch::Batch;
use crate::arrays::datatype::DataType;
use crate::buffer::buffer_manager::DefaultBufferManager;
use crate::functions::scalar::ScalarFunction;
use crate::functions::scalar::builtin::numeric::gcd::Gcd;
use crate::functions::scalar::builtin::numeric::lcm::Lcm;
use crate::kani_verif_support::*;
use crate::util::iter::TryFromExactSizeIterator;

/// gcd by definition (a, b not both zero, |a|,|b| <= 127).
fn gcd_def(a: i16, b: i16) -> i16 {
    let (a, b) = (a.abs(), b.abs());
    let mut g = 0i16;
    let mut d = 1i16;
    while d <= 127 {
        if a % d == 0 && b % d == 0 {
            g = d;
        }
        d += 1;
    }
    g
}

macro_rules! run2 {
    ($F:ty, $a:expr, $b:expr) => {{
        let batch = Batch { arrays: vec![ok(Array::try_from_iter([$a])), ok(Array::try_from_iter([$b]))], num_rows: 1, cache: None };
        let mut out = ok(Array::new(&DefaultBufferManager, DataType::int8(), 1));
        let good = is_ok_forget(<$F as ScalarFunction>::execute(&(), &batch, &mut out));
        let v = ok(PhysicalI8::get_addressable(&out.data)).slice[0];
        let valid = out.validity.is_valid(0);
        core::mem::forget(batch);
        core::mem::forget(out);
        (good, valid, v)
    }};
}

// @h name=c12_gcd_i8_exact props=C12 tier=quick
#[kani::proof]
#[kani::unwind(130)]
#[kani::stub(alloc::fmt::format, crate::kani_verif_support::stub_format)]
#[kani::stub(std::backtrace::Backtrace::capture, crate::kani_verif_support::stub_backtrace)]
fn c12_gcd_i8_exact() {
    let a: i8 = kani::any();
    let b: i8 = kani::any();
    kani::assume(a != i8::MIN && b != i8::MIN);
    let (good, valid, v) = run2!(Gcd<PhysicalI8>, a, b);
    kani::cover!(a != 0 && b != 0);
    assert!(good && valid, "gcd of representable operands is a value");
    let want = if a == 0 && b == 0 { 0 } else { gcd_def(a as i16, b as i16) };
    assert!(v as i16 == want, "gcd equals the greatest common divisor");
}

// @h name=c12_lcm_i8_exact props=C12 tier=quick
#[kani::proof]
#[kani::unwind(130)]
#[kani::stub(alloc::fmt::format, crate::kani_verif_support::stub_format)]
#[kani::stub(std::backtrace::Backtrace::capture, crate::kani_verif_support::stub_backtrace)]
fn c12_lcm_i8_exact() {
    let a: i8 = kani::any();
    let b: i8 = kani::any();
    kani::assume(a != i8::MIN && b != i8::MIN);
    let want: i16 = if a == 0 || b == 0 {
        0
    } else {
        (a as i16).abs() / gcd_def(a as i16, b as i16) * (b as i16).abs()
    };
    kani::assume(want <= i8::MAX as i16);
    let (good, valid, v) = run2!(Lcm<PhysicalI8>, a, b);
    kani::cover!(a != 0 && b != 0 && want > (a as i16).abs() && want > (b as i16).abs());
    assert!(good && valid, "a representable lcm is a value");
    assert!(v as i16 == want, "lcm equals the least common multiple");
}

// @h name=c12_lcm_i8_err props=C12,C15 tier=thorough
#[kani::proof]
#[kani::unwind(130)]
#[kani::stub(alloc::fmt::format, crate::kani_verif_support::stub_format)]
#[kani::stub(std::backtrace::Backtrace::capture, crate::kani_verif_support::stub_backtrace)]
fn c12_lcm_i8_err() {
    let a: i8 = kani::any();
    let b: i8 = kani::any();
    kani::assume(a != i8::MIN && b != i8::MIN && a != 0 && b != 0);
    let want: i16 = (a as i16).abs() / gcd_def(a as i16, b as i16) * (b as i16).abs();
    kani::assume(want > i8::MAX as i16);
    kani::cover!(true);
    let (good, _valid, _v) = run2!(Lcm<PhysicalI8>, a, b);
    assert!(!good, "an lcm that does not fit the type must be reported as an error");
}

// @h name=c12_gcd_i8_min_err props=C12,C15 tier=thorough
#[kani::proof]
#[kani::unwind(130)]
#[kani::stub(alloc::fmt::format, crate::kani_verif_support::stub_format)]
#[kani::stub(std::backtrace::Backtrace::capture, crate::kani_verif_support::stub_backtrace)]
fn c12_gcd_i8_min_err() {
    let b: i8 = kani::any();
    kani::cover!(true);
    // gcd(MIN, b) = gcd(128, |b|): representable unless it is 128 itself (b == 0 or b == MIN)
    let (good, valid, v) = run2!(Gcd<PhysicalI8>, i8::MIN, b);
    if good {
        assert!(valid, "value or error");
        let want = if b == 0 || b == i8::MIN { 128 } else { gcd_def(128, b as i16) };
        assert!(want <= 127 && v as i16 == want, "gcd(MIN, b) is exact when it fits");
    }
}
