// @module crate=glaredb_core parent=src/functions/scalar/builtin/arith/mod.rs
// @encodes Add::<S>::execute, Sub::<S>::execute, Mul::<S>::execute, Div::<S>::execute, Rem::<S>::execute, Negate::<S>::execute, BinaryExecutor::execute, UnaryExecutor::execute, OutBuffer::from_array, PutBuffer::put, Array::try_from_iter, Array::new
// @bounds one-row arrays, unwind 3; oracle = std checked_* (exact integer result or None). Operands are symbolic at full width except: div/rem *_exact for 32/64/128-bit types assume |a|,|b| < 2^15 (full-width 32-bit division did not finish in 1800 s; the zero-divisor and MIN/-1 corners are decided at full width by the *_err harnesses), and mul *_err for 64/128-bit types assume |b| < 2^8 (a full width)
//! C12 (also C15, C05): integer arithmetic through the real ScalarFunction::execute entry
//! point is exact when the mathematical result is representable ("*_exact") and
//! is reported as an error - never a panic, never a wrapped value - when it is
//! not ("*_err"). The two regions are separate harnesses so that a known defect
//! in one never masks a regression in the other.
#![allow(unused_imports)]
use super::*;
use crate::arrays::array::Array;
use crate::arrays::array::physical_type::*;
use crate::arrays::batch::Batch;
use crate::arrays::datatype::DataType;
use crate::buffer::buffer_manager::DefaultBufferManager;
use crate::functions::scalar::ScalarFunction;
use crate::functions::scalar::builtin::negate::Negate;
use crate::kani_verif_support::*;
use crate::util::iter::TryFromExactSizeIterator;

macro_rules! binop {
    ($exact:ident, $err:ident, $F:ident, $S:ident, $t:ty, $dt:ident, $oracle:expr) => {
        binop!($exact, $err, $F, $S, $t, $dt, $oracle, |_a: $t, _b: $t| true, |_a: $t, _b: $t| true);
    };
    // $rx / $re: operand restriction of the exact / err harness (stated bound; `true` = full width)
    ($exact:ident, $err:ident, $F:ident, $S:ident, $t:ty, $dt:ident, $oracle:expr, $rx:expr, $re:expr) => {
        #[kani::proof]
        #[kani::unwind(3)]
        #[kani::stub(alloc::fmt::format, crate::kani_verif_support::stub_format)]
        #[kani::stub(std::backtrace::Backtrace::capture, crate::kani_verif_support::stub_backtrace)]
        fn $exact() {
            let a: $t = kani::any();
            let b: $t = kani::any();
            let want: Option<$t> = ($oracle)(a, b);
            kani::assume(want.is_some());
            kani::assume(($rx)(a, b));
            let arr_a = ok(Array::try_from_iter([a]));
            let arr_b = ok(Array::try_from_iter([b]));
            let batch = Batch { arrays: vec![arr_a, arr_b], num_rows: 1, cache: None };
            let mut out = ok(Array::new(&DefaultBufferManager, DataType::$dt(), 1));
            let good = is_ok_forget(<$F<$S> as ScalarFunction>::execute(&(), &batch, &mut out));
            kani::cover!(good);
            assert!(good, "representable result must not be an error");
            assert!(out.validity.is_valid(0), "non-NULL inputs give a non-NULL result");
            let got = ok($S::get_addressable(&out.data)).slice[0];
            assert!(Some(got) == want, "result equals the exact mathematical result");
            core::mem::forget(batch);
            core::mem::forget(out);
        }

        #[kani::proof]
        #[kani::unwind(3)]
        #[kani::stub(alloc::fmt::format, crate::kani_verif_support::stub_format)]
        #[kani::stub(std::backtrace::Backtrace::capture, crate::kani_verif_support::stub_backtrace)]
        fn $err() {
            let a: $t = kani::any();
            let b: $t = kani::any();
            kani::assume((($oracle)(a, b) as Option<$t>).is_none());
            kani::assume(($re)(a, b));
            let arr_a = ok(Array::try_from_iter([a]));
            let arr_b = ok(Array::try_from_iter([b]));
            let batch = Batch { arrays: vec![arr_a, arr_b], num_rows: 1, cache: None };
            let mut out = ok(Array::new(&DefaultBufferManager, DataType::$dt(), 1));
            kani::cover!(true);
            let good = is_ok_forget(<$F<$S> as ScalarFunction>::execute(&(), &batch, &mut out));
            assert!(!good, "unrepresentable result (overflow / zero divisor) must be reported as an error");
            core::mem::forget(batch);
            core::mem::forget(out);
        }
    };
}

macro_rules! negop {
    ($exact:ident, $err:ident, $S:ident, $t:ty, $dt:ident) => {
        #[kani::proof]
        #[kani::unwind(3)]
        #[kani::stub(alloc::fmt::format, crate::kani_verif_support::stub_format)]
        #[kani::stub(std::backtrace::Backtrace::capture, crate::kani_verif_support::stub_backtrace)]
        fn $exact() {
            let a: $t = kani::any();
            let want = a.checked_neg();
            kani::assume(want.is_some());
            let arr_a = ok(Array::try_from_iter([a]));
            let batch = Batch { arrays: vec![arr_a], num_rows: 1, cache: None };
            let mut out = ok(Array::new(&DefaultBufferManager, DataType::$dt(), 1));
            let good = is_ok_forget(<Negate<$S> as ScalarFunction>::execute(&(), &batch, &mut out));
            kani::cover!(good);
            assert!(good, "representable result must not be an error");
            assert!(out.validity.is_valid(0), "non-NULL input gives a non-NULL result");
            let got = ok($S::get_addressable(&out.data)).slice[0];
            assert!(Some(got) == want, "result equals the exact mathematical result");
            core::mem::forget(batch);
            core::mem::forget(out);
        }

        #[kani::proof]
        #[kani::unwind(3)]
        #[kani::stub(alloc::fmt::format, crate::kani_verif_support::stub_format)]
        #[kani::stub(std::backtrace::Backtrace::capture, crate::kani_verif_support::stub_backtrace)]
        fn $err() {
            let a: $t = <$t>::MIN;
            let arr_a = ok(Array::try_from_iter([a]));
            let batch = Batch { arrays: vec![arr_a], num_rows: 1, cache: None };
            let mut out = ok(Array::new(&DefaultBufferManager, DataType::$dt(), 1));
            kani::cover!(true);
            let good = is_ok_forget(<Negate<$S> as ScalarFunction>::execute(&(), &batch, &mut out));
            assert!(!good, "unrepresentable result (overflow / zero divisor) must be reported as an error");
            core::mem::forget(batch);
            core::mem::forget(out);
        }
    };
}


/// MIN % -1: the mathematical result (0) is representable, so the statement may return 0
/// (or, leniently, an error) - but it must not bring the process down.
macro_rules! rem_corner {
    ($name:ident, $S:ident, $t:ty, $dt:ident) => {
        #[kani::proof]
        #[kani::unwind(3)]
        #[kani::stub(alloc::fmt::format, crate::kani_verif_support::stub_format)]
        #[kani::stub(std::backtrace::Backtrace::capture, crate::kani_verif_support::stub_backtrace)]
        fn $name() {
            let arr_a = ok(Array::try_from_iter([<$t>::MIN]));
            let arr_b = ok(Array::try_from_iter([-1 as $t]));
            let batch = Batch { arrays: vec![arr_a, arr_b], num_rows: 1, cache: None };
            let mut out = ok(Array::new(&DefaultBufferManager, DataType::$dt(), 1));
            kani::cover!(true);
            let good = is_ok_forget(<Rem<$S> as ScalarFunction>::execute(&(), &batch, &mut out));
            if good {
                assert!(ok($S::get_addressable(&out.data)).slice[0] == 0, "MIN % -1 = 0");
            }
            core::mem::forget(batch);
            core::mem::forget(out);
        }
    };
}

// @h name=c12_add_i8_exact props=C12 tier=thorough
// @h name=c12_add_i8_err props=C12,C15 tier=thorough
binop!(c12_add_i8_exact, c12_add_i8_err, Add, PhysicalI8, i8, int8, |a: i8, b: i8| a.checked_add(b), |_a: i8, _b: i8| true, |_a: i8, _b: i8| true);
// @h name=c12_add_i16_exact props=C12 tier=thorough
// @h name=c12_add_i16_err props=C12,C15 tier=thorough
binop!(c12_add_i16_exact, c12_add_i16_err, Add, PhysicalI16, i16, int16, |a: i16, b: i16| a.checked_add(b), |_a: i16, _b: i16| true, |_a: i16, _b: i16| true);
// @h name=c12_add_i32_exact props=C12 tier=quick
// @h name=c12_add_i32_err props=C12,C15 tier=quick
binop!(c12_add_i32_exact, c12_add_i32_err, Add, PhysicalI32, i32, int32, |a: i32, b: i32| a.checked_add(b), |_a: i32, _b: i32| true, |_a: i32, _b: i32| true);
// @h name=c12_add_i64_exact props=C12 tier=thorough
// @h name=c12_add_i64_err props=C12,C15 tier=thorough
binop!(c12_add_i64_exact, c12_add_i64_err, Add, PhysicalI64, i64, int64, |a: i64, b: i64| a.checked_add(b), |_a: i64, _b: i64| true, |_a: i64, _b: i64| true);
// @h name=c12_add_i128_exact props=C12 tier=thorough
// @h name=c12_add_i128_err props=C12,C15 tier=thorough
binop!(c12_add_i128_exact, c12_add_i128_err, Add, PhysicalI128, i128, int128, |a: i128, b: i128| a.checked_add(b), |_a: i128, _b: i128| true, |_a: i128, _b: i128| true);
// @h name=c12_add_u8_exact props=C12 tier=quick
// @h name=c12_add_u8_err props=C12,C15 tier=quick
binop!(c12_add_u8_exact, c12_add_u8_err, Add, PhysicalU8, u8, uint8, |a: u8, b: u8| a.checked_add(b), |_a: u8, _b: u8| true, |_a: u8, _b: u8| true);
// @h name=c12_add_u16_exact props=C12 tier=thorough
// @h name=c12_add_u16_err props=C12,C15 tier=thorough
binop!(c12_add_u16_exact, c12_add_u16_err, Add, PhysicalU16, u16, uint16, |a: u16, b: u16| a.checked_add(b), |_a: u16, _b: u16| true, |_a: u16, _b: u16| true);
// @h name=c12_add_u32_exact props=C12 tier=thorough
// @h name=c12_add_u32_err props=C12,C15 tier=thorough
binop!(c12_add_u32_exact, c12_add_u32_err, Add, PhysicalU32, u32, uint32, |a: u32, b: u32| a.checked_add(b), |_a: u32, _b: u32| true, |_a: u32, _b: u32| true);
// @h name=c12_add_u64_exact props=C12 tier=thorough
// @h name=c12_add_u64_err props=C12,C15 tier=thorough
binop!(c12_add_u64_exact, c12_add_u64_err, Add, PhysicalU64, u64, uint64, |a: u64, b: u64| a.checked_add(b), |_a: u64, _b: u64| true, |_a: u64, _b: u64| true);
// @h name=c12_add_u128_exact props=C12 tier=thorough
// @h name=c12_add_u128_err props=C12,C15 tier=thorough
binop!(c12_add_u128_exact, c12_add_u128_err, Add, PhysicalU128, u128, uint128, |a: u128, b: u128| a.checked_add(b), |_a: u128, _b: u128| true, |_a: u128, _b: u128| true);
// @h name=c12_sub_i8_exact props=C12 tier=thorough
// @h name=c12_sub_i8_err props=C12,C15 tier=thorough
binop!(c12_sub_i8_exact, c12_sub_i8_err, Sub, PhysicalI8, i8, int8, |a: i8, b: i8| a.checked_sub(b), |_a: i8, _b: i8| true, |_a: i8, _b: i8| true);
// @h name=c12_sub_i16_exact props=C12 tier=thorough
// @h name=c12_sub_i16_err props=C12,C15 tier=thorough
binop!(c12_sub_i16_exact, c12_sub_i16_err, Sub, PhysicalI16, i16, int16, |a: i16, b: i16| a.checked_sub(b), |_a: i16, _b: i16| true, |_a: i16, _b: i16| true);
// @h name=c12_sub_i32_exact props=C12 tier=thorough
// @h name=c12_sub_i32_err props=C12,C15 tier=thorough
binop!(c12_sub_i32_exact, c12_sub_i32_err, Sub, PhysicalI32, i32, int32, |a: i32, b: i32| a.checked_sub(b), |_a: i32, _b: i32| true, |_a: i32, _b: i32| true);
// @h name=c12_sub_i64_exact props=C12 tier=quick
// @h name=c12_sub_i64_err props=C12,C15 tier=quick
binop!(c12_sub_i64_exact, c12_sub_i64_err, Sub, PhysicalI64, i64, int64, |a: i64, b: i64| a.checked_sub(b), |_a: i64, _b: i64| true, |_a: i64, _b: i64| true);
// @h name=c12_sub_i128_exact props=C12 tier=thorough
// @h name=c12_sub_i128_err props=C12,C15 tier=thorough
binop!(c12_sub_i128_exact, c12_sub_i128_err, Sub, PhysicalI128, i128, int128, |a: i128, b: i128| a.checked_sub(b), |_a: i128, _b: i128| true, |_a: i128, _b: i128| true);
// @h name=c12_sub_u8_exact props=C12 tier=thorough
// @h name=c12_sub_u8_err props=C12,C15 tier=thorough
binop!(c12_sub_u8_exact, c12_sub_u8_err, Sub, PhysicalU8, u8, uint8, |a: u8, b: u8| a.checked_sub(b), |_a: u8, _b: u8| true, |_a: u8, _b: u8| true);
// @h name=c12_sub_u16_exact props=C12 tier=quick
// @h name=c12_sub_u16_err props=C12,C15 tier=quick
binop!(c12_sub_u16_exact, c12_sub_u16_err, Sub, PhysicalU16, u16, uint16, |a: u16, b: u16| a.checked_sub(b), |_a: u16, _b: u16| true, |_a: u16, _b: u16| true);
// @h name=c12_sub_u32_exact props=C12 tier=thorough
// @h name=c12_sub_u32_err props=C12,C15 tier=thorough
binop!(c12_sub_u32_exact, c12_sub_u32_err, Sub, PhysicalU32, u32, uint32, |a: u32, b: u32| a.checked_sub(b), |_a: u32, _b: u32| true, |_a: u32, _b: u32| true);
// @h name=c12_sub_u64_exact props=C12 tier=thorough
// @h name=c12_sub_u64_err props=C12,C15 tier=thorough
binop!(c12_sub_u64_exact, c12_sub_u64_err, Sub, PhysicalU64, u64, uint64, |a: u64, b: u64| a.checked_sub(b), |_a: u64, _b: u64| true, |_a: u64, _b: u64| true);
// @h name=c12_sub_u128_exact props=C12 tier=thorough
// @h name=c12_sub_u128_err props=C12,C15 tier=thorough
binop!(c12_sub_u128_exact, c12_sub_u128_err, Sub, PhysicalU128, u128, uint128, |a: u128, b: u128| a.checked_sub(b), |_a: u128, _b: u128| true, |_a: u128, _b: u128| true);
// @h name=c12_mul_i8_exact props=C12 tier=thorough
// @h name=c12_mul_i8_err props=C12,C15 tier=thorough
binop!(c12_mul_i8_exact, c12_mul_i8_err, Mul, PhysicalI8, i8, int8, |a: i8, b: i8| a.checked_mul(b), |_a: i8, _b: i8| true, |_a: i8, _b: i8| true);
// @h name=c12_mul_i16_exact props=C12 tier=quick
// @h name=c12_mul_i16_err props=C12,C15 tier=quick
binop!(c12_mul_i16_exact, c12_mul_i16_err, Mul, PhysicalI16, i16, int16, |a: i16, b: i16| a.checked_mul(b), |_a: i16, _b: i16| true, |_a: i16, _b: i16| true);
// @h name=c12_mul_i32_exact props=C12 tier=thorough
// @h name=c12_mul_i32_err props=C12,C15 tier=thorough
binop!(c12_mul_i32_exact, c12_mul_i32_err, Mul, PhysicalI32, i32, int32, |a: i32, b: i32| a.checked_mul(b), |_a: i32, _b: i32| true, |_a: i32, _b: i32| true);
// @h name=c12_mul_i64_exact props=C12 tier=thorough
// @h name=c12_mul_i64_err props=C12,C15 tier=thorough
binop!(c12_mul_i64_exact, c12_mul_i64_err, Mul, PhysicalI64, i64, int64, |a: i64, b: i64| a.checked_mul(b), |_a: i64, _b: i64| true, |_a: i64, b: i64| b >= -(1 << 8) && b < (1 << 8));
// (c12_mul_i128_exact is not registered: signed 128-bit checked_mul, even with |b| < 8, gave no verdict in 1800 s)
// @h name=c12_mul_i128_err props=C12,C15 tier=thorough
binop!(c12_mul_i128_exact, c12_mul_i128_err, Mul, PhysicalI128, i128, int128, |a: i128, b: i128| a.checked_mul(b), |_a: i128, _b: i128| true, |_a: i128, b: i128| b >= -(1 << 3) && b < (1 << 3));
// @h name=c12_mul_u8_exact props=C12 tier=quick
// @h name=c12_mul_u8_err props=C12,C15 tier=quick
binop!(c12_mul_u8_exact, c12_mul_u8_err, Mul, PhysicalU8, u8, uint8, |a: u8, b: u8| a.checked_mul(b), |_a: u8, _b: u8| true, |_a: u8, _b: u8| true);
// @h name=c12_mul_u16_exact props=C12 tier=thorough
// @h name=c12_mul_u16_err props=C12,C15 tier=thorough
binop!(c12_mul_u16_exact, c12_mul_u16_err, Mul, PhysicalU16, u16, uint16, |a: u16, b: u16| a.checked_mul(b), |_a: u16, _b: u16| true, |_a: u16, _b: u16| true);
// @h name=c12_mul_u32_exact props=C12 tier=thorough
// @h name=c12_mul_u32_err props=C12,C15 tier=thorough
binop!(c12_mul_u32_exact, c12_mul_u32_err, Mul, PhysicalU32, u32, uint32, |a: u32, b: u32| a.checked_mul(b), |_a: u32, _b: u32| true, |_a: u32, _b: u32| true);
// @h name=c12_mul_u64_exact props=C12 tier=thorough
// @h name=c12_mul_u64_err props=C12,C15 tier=thorough
binop!(c12_mul_u64_exact, c12_mul_u64_err, Mul, PhysicalU64, u64, uint64, |a: u64, b: u64| a.checked_mul(b), |_a: u64, _b: u64| true, |_a: u64, b: u64| b < (1 << 8));
// @h name=c12_mul_u128_exact props=C12 tier=thorough
// @h name=c12_mul_u128_err props=C12,C15 tier=thorough
binop!(c12_mul_u128_exact, c12_mul_u128_err, Mul, PhysicalU128, u128, uint128, |a: u128, b: u128| a.checked_mul(b), |_a: u128, _b: u128| true, |_a: u128, b: u128| b < (1 << 3));
// @h name=c12_div_i8_exact props=C12 tier=quick
// @h name=c12_div_i8_err props=C12,C15 tier=quick
binop!(c12_div_i8_exact, c12_div_i8_err, Div, PhysicalI8, i8, int8, |a: i8, b: i8| a.checked_div(b), |_a: i8, _b: i8| true, |_a: i8, _b: i8| true);
// @h name=c12_div_i16_exact props=C12 tier=thorough
// @h name=c12_div_i16_err props=C12,C15 tier=thorough
binop!(c12_div_i16_exact, c12_div_i16_err, Div, PhysicalI16, i16, int16, |a: i16, b: i16| a.checked_div(b), |_a: i16, _b: i16| true, |_a: i16, _b: i16| true);
// @h name=c12_div_i32_exact props=C12 tier=thorough
// @h name=c12_div_i32_err props=C12,C15 tier=thorough
binop!(c12_div_i32_exact, c12_div_i32_err, Div, PhysicalI32, i32, int32, |a: i32, b: i32| a.checked_div(b), |a: i32, b: i32| a >= -(1 << 15) && a < (1 << 15) && b >= -(1 << 15) && b < (1 << 15), |_a: i32, _b: i32| true);
// @h name=c12_div_i64_exact props=C12 tier=thorough
// @h name=c12_div_i64_err props=C12,C15 tier=thorough
binop!(c12_div_i64_exact, c12_div_i64_err, Div, PhysicalI64, i64, int64, |a: i64, b: i64| a.checked_div(b), |a: i64, b: i64| a >= -(1 << 15) && a < (1 << 15) && b >= -(1 << 15) && b < (1 << 15), |_a: i64, _b: i64| true);
// @h name=c12_div_i128_exact props=C12 tier=thorough
// @h name=c12_div_i128_err props=C12,C15 tier=thorough
binop!(c12_div_i128_exact, c12_div_i128_err, Div, PhysicalI128, i128, int128, |a: i128, b: i128| a.checked_div(b), |a: i128, b: i128| a >= -(1 << 15) && a < (1 << 15) && b >= -(1 << 15) && b < (1 << 15), |_a: i128, _b: i128| true);
// @h name=c12_div_u8_exact props=C12 tier=quick
// @h name=c12_div_u8_err props=C12,C15 tier=quick
binop!(c12_div_u8_exact, c12_div_u8_err, Div, PhysicalU8, u8, uint8, |a: u8, b: u8| a.checked_div(b), |_a: u8, _b: u8| true, |_a: u8, _b: u8| true);
// @h name=c12_div_u16_exact props=C12 tier=thorough
// @h name=c12_div_u16_err props=C12,C15 tier=thorough
binop!(c12_div_u16_exact, c12_div_u16_err, Div, PhysicalU16, u16, uint16, |a: u16, b: u16| a.checked_div(b), |_a: u16, _b: u16| true, |_a: u16, _b: u16| true);
// @h name=c12_div_u32_exact props=C12 tier=thorough
// @h name=c12_div_u32_err props=C12,C15 tier=thorough
binop!(c12_div_u32_exact, c12_div_u32_err, Div, PhysicalU32, u32, uint32, |a: u32, b: u32| a.checked_div(b), |a: u32, b: u32| a < (1 << 15) && b < (1 << 15), |_a: u32, _b: u32| true);
// @h name=c12_div_u64_exact props=C12 tier=thorough
// @h name=c12_div_u64_err props=C12,C15 tier=thorough
binop!(c12_div_u64_exact, c12_div_u64_err, Div, PhysicalU64, u64, uint64, |a: u64, b: u64| a.checked_div(b), |a: u64, b: u64| a < (1 << 15) && b < (1 << 15), |_a: u64, _b: u64| true);
// @h name=c12_div_u128_exact props=C12 tier=thorough
// @h name=c12_div_u128_err props=C12,C15 tier=thorough
binop!(c12_div_u128_exact, c12_div_u128_err, Div, PhysicalU128, u128, uint128, |a: u128, b: u128| a.checked_div(b), |a: u128, b: u128| a < (1 << 15) && b < (1 << 15), |_a: u128, _b: u128| true);
// @h name=c12_rem_i8_exact props=C12 tier=quick
// @h name=c12_rem_i8_err props=C12,C15 tier=quick
binop!(c12_rem_i8_exact, c12_rem_i8_err, Rem, PhysicalI8, i8, int8, |a: i8, b: i8| if b == 0 { None } else { Some(a.wrapping_rem(b)) }, |a: i8, b: i8| !(a == <i8>::MIN && b == -1), |_a: i8, _b: i8| true);
// @h name=c12_rem_i8_min_neg1 props=C12,C15 tier=quick
rem_corner!(c12_rem_i8_min_neg1, PhysicalI8, i8, int8);
// @h name=c12_rem_i16_exact props=C12 tier=thorough
// @h name=c12_rem_i16_err props=C12,C15 tier=thorough
binop!(c12_rem_i16_exact, c12_rem_i16_err, Rem, PhysicalI16, i16, int16, |a: i16, b: i16| if b == 0 { None } else { Some(a.wrapping_rem(b)) }, |a: i16, b: i16| !(a == <i16>::MIN && b == -1), |_a: i16, _b: i16| true);
// @h name=c12_rem_i16_min_neg1 props=C12,C15 tier=thorough
rem_corner!(c12_rem_i16_min_neg1, PhysicalI16, i16, int16);
// @h name=c12_rem_i32_exact props=C12 tier=thorough
// @h name=c12_rem_i32_err props=C12,C15 tier=thorough
binop!(c12_rem_i32_exact, c12_rem_i32_err, Rem, PhysicalI32, i32, int32, |a: i32, b: i32| if b == 0 { None } else { Some(a.wrapping_rem(b)) }, |a: i32, b: i32| a >= -(1 << 15) && a < (1 << 15) && b >= -(1 << 15) && b < (1 << 15) && !(a == <i32>::MIN && b == -1), |_a: i32, _b: i32| true);
// @h name=c12_rem_i32_min_neg1 props=C12,C15 tier=thorough
rem_corner!(c12_rem_i32_min_neg1, PhysicalI32, i32, int32);
// @h name=c12_rem_i64_exact props=C12 tier=thorough
// @h name=c12_rem_i64_err props=C12,C15 tier=thorough
binop!(c12_rem_i64_exact, c12_rem_i64_err, Rem, PhysicalI64, i64, int64, |a: i64, b: i64| if b == 0 { None } else { Some(a.wrapping_rem(b)) }, |a: i64, b: i64| a >= -(1 << 15) && a < (1 << 15) && b >= -(1 << 15) && b < (1 << 15) && !(a == <i64>::MIN && b == -1), |_a: i64, _b: i64| true);
// @h name=c12_rem_i64_min_neg1 props=C12,C15 tier=thorough
rem_corner!(c12_rem_i64_min_neg1, PhysicalI64, i64, int64);
// @h name=c12_rem_i128_exact props=C12 tier=thorough
// @h name=c12_rem_i128_err props=C12,C15 tier=thorough
binop!(c12_rem_i128_exact, c12_rem_i128_err, Rem, PhysicalI128, i128, int128, |a: i128, b: i128| if b == 0 { None } else { Some(a.wrapping_rem(b)) }, |a: i128, b: i128| a >= -(1 << 15) && a < (1 << 15) && b >= -(1 << 15) && b < (1 << 15) && !(a == <i128>::MIN && b == -1), |_a: i128, _b: i128| true);
// @h name=c12_rem_i128_min_neg1 props=C12,C15 tier=thorough
rem_corner!(c12_rem_i128_min_neg1, PhysicalI128, i128, int128);
// @h name=c12_rem_u8_exact props=C12 tier=quick
// @h name=c12_rem_u8_err props=C12,C15 tier=quick
binop!(c12_rem_u8_exact, c12_rem_u8_err, Rem, PhysicalU8, u8, uint8, |a: u8, b: u8| if b == 0 { None } else { Some(a.wrapping_rem(b)) }, |_a: u8, _b: u8| true, |_a: u8, _b: u8| true);
// @h name=c12_rem_u16_exact props=C12 tier=thorough
// @h name=c12_rem_u16_err props=C12,C15 tier=thorough
binop!(c12_rem_u16_exact, c12_rem_u16_err, Rem, PhysicalU16, u16, uint16, |a: u16, b: u16| if b == 0 { None } else { Some(a.wrapping_rem(b)) }, |_a: u16, _b: u16| true, |_a: u16, _b: u16| true);
// @h name=c12_rem_u32_exact props=C12 tier=thorough
// @h name=c12_rem_u32_err props=C12,C15 tier=thorough
binop!(c12_rem_u32_exact, c12_rem_u32_err, Rem, PhysicalU32, u32, uint32, |a: u32, b: u32| if b == 0 { None } else { Some(a.wrapping_rem(b)) }, |a: u32, b: u32| a < (1 << 15) && b < (1 << 15), |_a: u32, _b: u32| true);
// @h name=c12_rem_u64_exact props=C12 tier=thorough
// @h name=c12_rem_u64_err props=C12,C15 tier=thorough
binop!(c12_rem_u64_exact, c12_rem_u64_err, Rem, PhysicalU64, u64, uint64, |a: u64, b: u64| if b == 0 { None } else { Some(a.wrapping_rem(b)) }, |a: u64, b: u64| a < (1 << 15) && b < (1 << 15), |_a: u64, _b: u64| true);
// @h name=c12_rem_u128_exact props=C12 tier=thorough
// @h name=c12_rem_u128_err props=C12,C15 tier=thorough
binop!(c12_rem_u128_exact, c12_rem_u128_err, Rem, PhysicalU128, u128, uint128, |a: u128, b: u128| if b == 0 { None } else { Some(a.wrapping_rem(b)) }, |a: u128, b: u128| a < (1 << 15) && b < (1 << 15), |_a: u128, _b: u128| true);
// @h name=c12_neg_i8_exact props=C12 tier=thorough
// @h name=c12_neg_i8_err props=C12,C15 tier=thorough
negop!(c12_neg_i8_exact, c12_neg_i8_err, PhysicalI8, i8, int8);
// @h name=c12_neg_i16_exact props=C12 tier=thorough
// @h name=c12_neg_i16_err props=C12,C15 tier=thorough
negop!(c12_neg_i16_exact, c12_neg_i16_err, PhysicalI16, i16, int16);
// @h name=c12_neg_i32_exact props=C12 tier=quick
// @h name=c12_neg_i32_err props=C12,C15 tier=quick
negop!(c12_neg_i32_exact, c12_neg_i32_err, PhysicalI32, i32, int32);
// @h name=c12_neg_i64_exact props=C12 tier=thorough
// @h name=c12_neg_i64_err props=C12,C15 tier=thorough
negop!(c12_neg_i64_exact, c12_neg_i64_err, PhysicalI64, i64, int64);
// @h name=c12_neg_i128_exact props=C12 tier=thorough
// @h name=c12_neg_i128_err props=C12,C15 tier=thorough
negop!(c12_neg_i128_exact, c12_neg_i128_err, PhysicalI128, i128, int128);
