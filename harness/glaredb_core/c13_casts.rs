// @module crate=glaredb_core parent=src/functions/cast/builtin/mod.rs
// @stubs CastErrorState::set_error -> flag-only stub (see support_cast.rs; tied to the real code by c13_cast_error_state)
// @encodes PrimToPrim::<S1,S2>::cast, IntToDecimal::<S,D>::{bind,cast}, DecimalToDecimal::<D1,D2>::{bind,cast}, DecimalType::validate_precision, CastErrorState::{set_error,into_result}, UnaryExecutor::execute
// @bounds one-row arrays; source value symbolic at full width; decimal (precision, scale) concrete per harness (listed in the harness name p<P>s<S>); downscaling by more than 10^5 (64-bit) did not finish in 1800 s and is outside the bound; unwind 6
//! C13: numeric casts are exact when the target can represent the value, otherwise an
//! error (CastFailBehavior::Error) or NULL (CastFailBehavior::Null); never a wrapped
//! or precision-violating value. Decimal rescaling rounds half away from zero.
#![allow(unused_imports)]
use crate::arrays::array::Array;
use crate::arrays::array::physical_type::*;
use crate::arrays::datatype::{DataType, DecimalTypeMeta};
use crate::arrays::scalar::decimal::{Decimal64Type, Decimal128Type, DecimalType};
use crate::buffer::buffer_manager::DefaultBufferManager;
use crate::functions::cast::CastFunction;
use crate::functions::cast::behavior::CastFailBehavior;
use crate::functions::cast::builtin::to_decimal::{DecimalToDecimal, IntToDecimal};
use crate::functions::cast::builtin::to_primitive::PrimToPrim;
use crate::kani_verif_support::*;
use crate::util::iter::TryFromExactSizeIterator;

macro_rules! std_attrs {
    ($(#[$m:meta])* fn $name:ident() $body:block) => {
        #[kani::proof]
        #[kani::unwind(6)]
        #[kani::stub(alloc::fmt::format, crate::kani_verif_support::stub_format)]
        #[kani::stub(std::backtrace::Backtrace::capture, crate::kani_verif_support::stub_backtrace)]
        #[kani::stub(crate::functions::cast::behavior::CastErrorState::set_error, crate::functions::cast::behavior::kani_verif_support_cast::stub_set_error_flag)]
        $(#[$m])*
        fn $name() $body
    };
}

/// 10^(a-b) when a >= b, else 1 (so that both macro branches const-evaluate).
const fn pow10_diff(a: i32, b: i32) -> i128 {
    if a >= b { 10i128.pow((a - b) as u32) } else { 1 }
}

/// Outcome of a one-row cast: Err / NULL / value.
#[derive(PartialEq, Eq, Clone, Copy)]
enum Out<T> {
    Error,
    Null,
    Val(T),
}

macro_rules! run_cast {
    ($C:ty, $state:expr, $behavior:expr, $src:expr, $S2:ident, $dt:expr) => {{
        let src = $src;
        let mut out = ok(Array::new(&DefaultBufferManager, $dt, 1));
        let good = is_ok_forget(<$C as CastFunction>::cast($state, $behavior.new_state(), &src, 0..1, &mut out));
        let res = if !good || crate::functions::cast::behavior::kani_verif_support_cast::error_reported() {
            Out::Error
        } else if out.validity.is_valid(0) {
            Out::Val(ok($S2::get_addressable(&out.data)).slice[0])
        } else {
            Out::Null
        };
        core::mem::forget(src);
        core::mem::forget(out);
        res
    }};
}

// ---- integer -> integer: exact via TryFrom, otherwise Err (Error mode) / NULL (Null mode) ----
macro_rules! int_to_int {
    ($name:ident, $S1:ident, $t1:ty, $S2:ident, $t2:ty, $dt:ident) => {
        std_attrs! {
            fn $name() {
                let v: $t1 = kani::any();
                let null_mode: bool = kani::any();
                let behavior = if null_mode { CastFailBehavior::Null } else { CastFailBehavior::Error };
                let want = <$t2>::try_from(v).ok();
                kani::cover!(want.is_some());
                let res = run_cast!(PrimToPrim<$S1, $S2>, &(), behavior, ok(Array::try_from_iter([v])), $S2, DataType::$dt());
                match want {
                    Some(x) => assert!(res == Out::Val(x), "representable value must be cast exactly"),
                    None => {
                        if null_mode {
                            assert!(res == Out::Null, "TRY_CAST of an unrepresentable value is NULL");
                        } else {
                            assert!(res == Out::Error, "CAST of an unrepresentable value is an error, never a wrapped value");
                        }
                    }
                }
            }
        }
    };
}

// ---- float -> integer: truncation toward zero when the truncated value fits, else error ----
macro_rules! float_to_int {
    ($name:ident, $S1:ident, $f:ty, $S2:ident, $t2:ty, $dt:ident) => {
        std_attrs! {
            fn $name() {
                let v: $f = kani::any();
                let w = v as f64; // exact widening
                // truncation fits  <=>  MIN - 1 < w < MAX + 1 over the reals. In f64: MAX + 1 is a power of
                // two and exact for every target (for 64-bit targets `MAX as f64` is already 2^63 / 2^64);
                // MIN - 1 is exact except for i64, where no f64 lies strictly between -2^63 - 1 and -2^63.
                let hi = <$t2>::MAX as f64 + 1.0;
                let lo = <$t2>::MIN as f64;
                let lo_ok = if lo - 1.0 == lo { w >= lo } else { w > lo - 1.0 };
                let fits = !w.is_nan() && lo_ok && w < hi;
                let t = v as $t2; // Rust `as`: truncates toward zero (saturation is unreachable when `fits`)
                kani::cover!(fits && (t as f64) != w);
                kani::cover!(!fits);
                let res = run_cast!(PrimToPrim<$S1, $S2>, &(), CastFailBehavior::Error, ok(Array::try_from_iter([v])), $S2, DataType::$dt());
                if fits {
                    assert!(res == Out::Val(t), "float to integer truncates toward zero");
                } else {
                    assert!(res == Out::Error, "NaN / infinite / out-of-range float is an error, never a saturated or wrapped value");
                }
            }
        }
    };
}

// ---- integer -> decimal(p, s): unscaled = v * 10^s exactly, at most p digits, else error ----
macro_rules! int_to_dec {
    ($name:ident, $S1:ident, $t1:ty, $D:ident, $S2:ident, $prim:ty, $dtfn:ident, $p:expr, $s:expr) => {
        std_attrs! {
            fn $name() {
                let v: $t1 = kani::any();
                let target = DataType::$dtfn(DecimalTypeMeta::new($p, $s));
                let src_t = DataType::int32(); // ignored by bind
                let state = ok(IntToDecimal::<$S1, $D>::new().bind(&src_t, &target));
                const POW_S: i128 = 10i128.pow($s as u32);
                const POW_P: i128 = 10i128.pow($p as u32);
                let exact: i128 = (v as i128) * POW_S; // |v| < 2^64, s <= 18: no overflow in i128
                let fits = exact > -POW_P && exact < POW_P;
                kani::cover!(fits);
                let res = run_cast!(IntToDecimal<$S1, $D>, &state, CastFailBehavior::Error, ok(Array::try_from_iter([v])), $S2, target.clone());
                if fits {
                    assert!(res == Out::Val(exact as $prim), "integer to decimal scales exactly");
                } else {
                    assert!(res == Out::Error, "integer with more than p digits after scaling is an error");
                }
                core::mem::forget(state);
            }
        }
    };
}

// ---- decimal(p1,s1) -> decimal(p2,s2): rescale, round half away from zero, at most p2 digits ----
macro_rules! dec_to_dec {
    ($name:ident, $D1:ident, $S1:ident, $prim1:ty, $dt1:ident, $D2:ident, $S2:ident, $prim2:ty, $dt2:ident,
     $p1:expr, $s1:expr, $p2:expr, $s2:expr) => {
        std_attrs! {
            fn $name() {
                let v: $prim1 = kani::any();
                const POW_P1: i128 = 10i128.pow($p1 as u32);
                const POW_P2: i128 = 10i128.pow($p2 as u32);
                // the source is a valid decimal(p1, s1)
                kani::assume((v as i128) > -POW_P1 && (v as i128) < POW_P1);
                let src_t = DataType::$dt1(DecimalTypeMeta::new($p1, $s1));
                let target = DataType::$dt2(DecimalTypeMeta::new($p2, $s2));
                let state = ok(DecimalToDecimal::<$D1, $D2>::new().bind(&src_t, &target));
                let res = run_cast!(DecimalToDecimal<$D1, $D2>, &state, CastFailBehavior::Error, ok(Array::try_from_iter([v])), $S2, target.clone());
                let a: i128 = v as i128;
                kani::cover!(matches!(res, Out::Val(_)) && v != 0);
                if $s2 >= $s1 {
                    const UP: i128 = pow10_diff($s2, $s1);
                    let exact = a * UP;
                    let fits = exact > -POW_P2 && exact < POW_P2;
                    if fits {
                        assert!(res == Out::Val(exact as $prim2), "upscaling is exact");
                    } else {
                        assert!(res == Out::Error, "value exceeding the target precision is an error");
                    }
                } else {
                    const D: i128 = pow10_diff($s1, $s2);
                    match res {
                        Out::Val(r) => {
                            let r = r as i128;
                            // r = round-half-away-from-zero(a / D), stated with multiplications only:
                            // 2|a| - D < 2|r|D <= 2|a| + D  and sign(r) = sign(a) unless r == 0
                            let (aa, rr) = (a.abs(), r.abs());
                            assert!(2 * rr * D <= 2 * aa + D && 2 * rr * D > 2 * aa - D, "downscaling rounds half away from zero");
                            assert!(r == 0 || (r < 0) == (a < 0), "sign is preserved");
                            assert!(r > -POW_P2 && r < POW_P2, "result respects the target precision");
                        }
                        Out::Error => {
                            // only allowed when the rounded value does not fit p2 digits
                            let q = (2 * a.abs() + D) / (2 * D);
                            assert!(q >= POW_P2, "error only when the rounded value exceeds the target precision");
                        }
                        Out::Null => assert!(false, "Error mode never yields NULL"),
                    }
                }
                core::mem::forget(state);
            }
        }
    };
}
// @h name=c13_int_i8_to_i16 props=C13 tier=thorough
int_to_int!(c13_int_i8_to_i16, PhysicalI8, i8, PhysicalI16, i16, int16);
// @h name=c13_int_i8_to_i32 props=C13 tier=thorough
int_to_int!(c13_int_i8_to_i32, PhysicalI8, i8, PhysicalI32, i32, int32);
// @h name=c13_int_i8_to_i64 props=C13 tier=thorough
int_to_int!(c13_int_i8_to_i64, PhysicalI8, i8, PhysicalI64, i64, int64);
// @h name=c13_int_i8_to_i128 props=C13 tier=thorough
int_to_int!(c13_int_i8_to_i128, PhysicalI8, i8, PhysicalI128, i128, int128);
// @h name=c13_int_i8_to_u8 props=C13 tier=thorough
int_to_int!(c13_int_i8_to_u8, PhysicalI8, i8, PhysicalU8, u8, uint8);
// @h name=c13_int_i8_to_u16 props=C13 tier=thorough
int_to_int!(c13_int_i8_to_u16, PhysicalI8, i8, PhysicalU16, u16, uint16);
// @h name=c13_int_i8_to_u32 props=C13 tier=thorough
int_to_int!(c13_int_i8_to_u32, PhysicalI8, i8, PhysicalU32, u32, uint32);
// @h name=c13_int_i8_to_u64 props=C13 tier=quick
int_to_int!(c13_int_i8_to_u64, PhysicalI8, i8, PhysicalU64, u64, uint64);
// @h name=c13_int_i8_to_u128 props=C13 tier=thorough
int_to_int!(c13_int_i8_to_u128, PhysicalI8, i8, PhysicalU128, u128, uint128);
// @h name=c13_int_i16_to_i8 props=C13 tier=thorough
int_to_int!(c13_int_i16_to_i8, PhysicalI16, i16, PhysicalI8, i8, int8);
// @h name=c13_int_i16_to_i32 props=C13 tier=thorough
int_to_int!(c13_int_i16_to_i32, PhysicalI16, i16, PhysicalI32, i32, int32);
// @h name=c13_int_i16_to_i64 props=C13 tier=thorough
int_to_int!(c13_int_i16_to_i64, PhysicalI16, i16, PhysicalI64, i64, int64);
// @h name=c13_int_i16_to_i128 props=C13 tier=thorough
int_to_int!(c13_int_i16_to_i128, PhysicalI16, i16, PhysicalI128, i128, int128);
// @h name=c13_int_i16_to_u8 props=C13 tier=thorough
int_to_int!(c13_int_i16_to_u8, PhysicalI16, i16, PhysicalU8, u8, uint8);
// @h name=c13_int_i16_to_u16 props=C13 tier=thorough
int_to_int!(c13_int_i16_to_u16, PhysicalI16, i16, PhysicalU16, u16, uint16);
// @h name=c13_int_i16_to_u32 props=C13 tier=thorough
int_to_int!(c13_int_i16_to_u32, PhysicalI16, i16, PhysicalU32, u32, uint32);
// @h name=c13_int_i16_to_u64 props=C13 tier=thorough
int_to_int!(c13_int_i16_to_u64, PhysicalI16, i16, PhysicalU64, u64, uint64);
// @h name=c13_int_i16_to_u128 props=C13 tier=thorough
int_to_int!(c13_int_i16_to_u128, PhysicalI16, i16, PhysicalU128, u128, uint128);
// @h name=c13_int_i32_to_i8 props=C13 tier=thorough
int_to_int!(c13_int_i32_to_i8, PhysicalI32, i32, PhysicalI8, i8, int8);
// @h name=c13_int_i32_to_i16 props=C13 tier=thorough
int_to_int!(c13_int_i32_to_i16, PhysicalI32, i32, PhysicalI16, i16, int16);
// @h name=c13_int_i32_to_i64 props=C13 tier=thorough
int_to_int!(c13_int_i32_to_i64, PhysicalI32, i32, PhysicalI64, i64, int64);
// @h name=c13_int_i32_to_i128 props=C13 tier=thorough
int_to_int!(c13_int_i32_to_i128, PhysicalI32, i32, PhysicalI128, i128, int128);
// @h name=c13_int_i32_to_u8 props=C13 tier=quick
int_to_int!(c13_int_i32_to_u8, PhysicalI32, i32, PhysicalU8, u8, uint8);
// @h name=c13_int_i32_to_u16 props=C13 tier=thorough
int_to_int!(c13_int_i32_to_u16, PhysicalI32, i32, PhysicalU16, u16, uint16);
// @h name=c13_int_i32_to_u32 props=C13 tier=thorough
int_to_int!(c13_int_i32_to_u32, PhysicalI32, i32, PhysicalU32, u32, uint32);
// @h name=c13_int_i32_to_u64 props=C13 tier=thorough
int_to_int!(c13_int_i32_to_u64, PhysicalI32, i32, PhysicalU64, u64, uint64);
// @h name=c13_int_i32_to_u128 props=C13 tier=thorough
int_to_int!(c13_int_i32_to_u128, PhysicalI32, i32, PhysicalU128, u128, uint128);
// @h name=c13_int_i64_to_i8 props=C13 tier=thorough
int_to_int!(c13_int_i64_to_i8, PhysicalI64, i64, PhysicalI8, i8, int8);
// @h name=c13_int_i64_to_i16 props=C13 tier=thorough
int_to_int!(c13_int_i64_to_i16, PhysicalI64, i64, PhysicalI16, i16, int16);
// @h name=c13_int_i64_to_i32 props=C13 tier=quick
int_to_int!(c13_int_i64_to_i32, PhysicalI64, i64, PhysicalI32, i32, int32);
// @h name=c13_int_i64_to_i128 props=C13 tier=thorough
int_to_int!(c13_int_i64_to_i128, PhysicalI64, i64, PhysicalI128, i128, int128);
// @h name=c13_int_i64_to_u8 props=C13 tier=thorough
int_to_int!(c13_int_i64_to_u8, PhysicalI64, i64, PhysicalU8, u8, uint8);
// @h name=c13_int_i64_to_u16 props=C13 tier=thorough
int_to_int!(c13_int_i64_to_u16, PhysicalI64, i64, PhysicalU16, u16, uint16);
// @h name=c13_int_i64_to_u32 props=C13 tier=thorough
int_to_int!(c13_int_i64_to_u32, PhysicalI64, i64, PhysicalU32, u32, uint32);
// @h name=c13_int_i64_to_u64 props=C13 tier=thorough
int_to_int!(c13_int_i64_to_u64, PhysicalI64, i64, PhysicalU64, u64, uint64);
// @h name=c13_int_i64_to_u128 props=C13 tier=thorough
int_to_int!(c13_int_i64_to_u128, PhysicalI64, i64, PhysicalU128, u128, uint128);
// @h name=c13_int_i128_to_i8 props=C13 tier=thorough
int_to_int!(c13_int_i128_to_i8, PhysicalI128, i128, PhysicalI8, i8, int8);
// @h name=c13_int_i128_to_i16 props=C13 tier=thorough
int_to_int!(c13_int_i128_to_i16, PhysicalI128, i128, PhysicalI16, i16, int16);
// @h name=c13_int_i128_to_i32 props=C13 tier=thorough
int_to_int!(c13_int_i128_to_i32, PhysicalI128, i128, PhysicalI32, i32, int32);
// @h name=c13_int_i128_to_i64 props=C13 tier=thorough
int_to_int!(c13_int_i128_to_i64, PhysicalI128, i128, PhysicalI64, i64, int64);
// @h name=c13_int_i128_to_u8 props=C13 tier=thorough
int_to_int!(c13_int_i128_to_u8, PhysicalI128, i128, PhysicalU8, u8, uint8);
// @h name=c13_int_i128_to_u16 props=C13 tier=thorough
int_to_int!(c13_int_i128_to_u16, PhysicalI128, i128, PhysicalU16, u16, uint16);
// @h name=c13_int_i128_to_u32 props=C13 tier=thorough
int_to_int!(c13_int_i128_to_u32, PhysicalI128, i128, PhysicalU32, u32, uint32);
// @h name=c13_int_i128_to_u64 props=C13 tier=thorough
int_to_int!(c13_int_i128_to_u64, PhysicalI128, i128, PhysicalU64, u64, uint64);
// @h name=c13_int_i128_to_u128 props=C13 tier=quick
int_to_int!(c13_int_i128_to_u128, PhysicalI128, i128, PhysicalU128, u128, uint128);
// @h name=c13_int_u8_to_i8 props=C13 tier=thorough
int_to_int!(c13_int_u8_to_i8, PhysicalU8, u8, PhysicalI8, i8, int8);
// @h name=c13_int_u8_to_i16 props=C13 tier=thorough
int_to_int!(c13_int_u8_to_i16, PhysicalU8, u8, PhysicalI16, i16, int16);
// @h name=c13_int_u8_to_i32 props=C13 tier=thorough
int_to_int!(c13_int_u8_to_i32, PhysicalU8, u8, PhysicalI32, i32, int32);
// @h name=c13_int_u8_to_i64 props=C13 tier=thorough
int_to_int!(c13_int_u8_to_i64, PhysicalU8, u8, PhysicalI64, i64, int64);
// @h name=c13_int_u8_to_i128 props=C13 tier=thorough
int_to_int!(c13_int_u8_to_i128, PhysicalU8, u8, PhysicalI128, i128, int128);
// @h name=c13_int_u8_to_u16 props=C13 tier=thorough
int_to_int!(c13_int_u8_to_u16, PhysicalU8, u8, PhysicalU16, u16, uint16);
// @h name=c13_int_u8_to_u32 props=C13 tier=thorough
int_to_int!(c13_int_u8_to_u32, PhysicalU8, u8, PhysicalU32, u32, uint32);
// @h name=c13_int_u8_to_u64 props=C13 tier=thorough
int_to_int!(c13_int_u8_to_u64, PhysicalU8, u8, PhysicalU64, u64, uint64);
// @h name=c13_int_u8_to_u128 props=C13 tier=thorough
int_to_int!(c13_int_u8_to_u128, PhysicalU8, u8, PhysicalU128, u128, uint128);
// @h name=c13_int_u16_to_i8 props=C13 tier=thorough
int_to_int!(c13_int_u16_to_i8, PhysicalU16, u16, PhysicalI8, i8, int8);
// @h name=c13_int_u16_to_i16 props=C13 tier=thorough
int_to_int!(c13_int_u16_to_i16, PhysicalU16, u16, PhysicalI16, i16, int16);
// @h name=c13_int_u16_to_i32 props=C13 tier=thorough
int_to_int!(c13_int_u16_to_i32, PhysicalU16, u16, PhysicalI32, i32, int32);
// @h name=c13_int_u16_to_i64 props=C13 tier=thorough
int_to_int!(c13_int_u16_to_i64, PhysicalU16, u16, PhysicalI64, i64, int64);
// @h name=c13_int_u16_to_i128 props=C13 tier=thorough
int_to_int!(c13_int_u16_to_i128, PhysicalU16, u16, PhysicalI128, i128, int128);
// @h name=c13_int_u16_to_u8 props=C13 tier=thorough
int_to_int!(c13_int_u16_to_u8, PhysicalU16, u16, PhysicalU8, u8, uint8);
// @h name=c13_int_u16_to_u32 props=C13 tier=thorough
int_to_int!(c13_int_u16_to_u32, PhysicalU16, u16, PhysicalU32, u32, uint32);
// @h name=c13_int_u16_to_u64 props=C13 tier=thorough
int_to_int!(c13_int_u16_to_u64, PhysicalU16, u16, PhysicalU64, u64, uint64);
// @h name=c13_int_u16_to_u128 props=C13 tier=thorough
int_to_int!(c13_int_u16_to_u128, PhysicalU16, u16, PhysicalU128, u128, uint128);
// @h name=c13_int_u32_to_i8 props=C13 tier=thorough
int_to_int!(c13_int_u32_to_i8, PhysicalU32, u32, PhysicalI8, i8, int8);
// @h name=c13_int_u32_to_i16 props=C13 tier=thorough
int_to_int!(c13_int_u32_to_i16, PhysicalU32, u32, PhysicalI16, i16, int16);
// @h name=c13_int_u32_to_i32 props=C13 tier=thorough
int_to_int!(c13_int_u32_to_i32, PhysicalU32, u32, PhysicalI32, i32, int32);
// @h name=c13_int_u32_to_i64 props=C13 tier=thorough
int_to_int!(c13_int_u32_to_i64, PhysicalU32, u32, PhysicalI64, i64, int64);
// @h name=c13_int_u32_to_i128 props=C13 tier=thorough
int_to_int!(c13_int_u32_to_i128, PhysicalU32, u32, PhysicalI128, i128, int128);
// @h name=c13_int_u32_to_u8 props=C13 tier=thorough
int_to_int!(c13_int_u32_to_u8, PhysicalU32, u32, PhysicalU8, u8, uint8);
// @h name=c13_int_u32_to_u16 props=C13 tier=thorough
int_to_int!(c13_int_u32_to_u16, PhysicalU32, u32, PhysicalU16, u16, uint16);
// @h name=c13_int_u32_to_u64 props=C13 tier=thorough
int_to_int!(c13_int_u32_to_u64, PhysicalU32, u32, PhysicalU64, u64, uint64);
// @h name=c13_int_u32_to_u128 props=C13 tier=thorough
int_to_int!(c13_int_u32_to_u128, PhysicalU32, u32, PhysicalU128, u128, uint128);
// @h name=c13_int_u64_to_i8 props=C13 tier=thorough
int_to_int!(c13_int_u64_to_i8, PhysicalU64, u64, PhysicalI8, i8, int8);
// @h name=c13_int_u64_to_i16 props=C13 tier=thorough
int_to_int!(c13_int_u64_to_i16, PhysicalU64, u64, PhysicalI16, i16, int16);
// @h name=c13_int_u64_to_i32 props=C13 tier=thorough
int_to_int!(c13_int_u64_to_i32, PhysicalU64, u64, PhysicalI32, i32, int32);
// @h name=c13_int_u64_to_i64 props=C13 tier=quick
int_to_int!(c13_int_u64_to_i64, PhysicalU64, u64, PhysicalI64, i64, int64);
// @h name=c13_int_u64_to_i128 props=C13 tier=thorough
int_to_int!(c13_int_u64_to_i128, PhysicalU64, u64, PhysicalI128, i128, int128);
// @h name=c13_int_u64_to_u8 props=C13 tier=thorough
int_to_int!(c13_int_u64_to_u8, PhysicalU64, u64, PhysicalU8, u8, uint8);
// @h name=c13_int_u64_to_u16 props=C13 tier=thorough
int_to_int!(c13_int_u64_to_u16, PhysicalU64, u64, PhysicalU16, u16, uint16);
// @h name=c13_int_u64_to_u32 props=C13 tier=thorough
int_to_int!(c13_int_u64_to_u32, PhysicalU64, u64, PhysicalU32, u32, uint32);
// @h name=c13_int_u64_to_u128 props=C13 tier=thorough
int_to_int!(c13_int_u64_to_u128, PhysicalU64, u64, PhysicalU128, u128, uint128);
// @h name=c13_int_u128_to_i8 props=C13 tier=thorough
int_to_int!(c13_int_u128_to_i8, PhysicalU128, u128, PhysicalI8, i8, int8);
// @h name=c13_int_u128_to_i16 props=C13 tier=quick
int_to_int!(c13_int_u128_to_i16, PhysicalU128, u128, PhysicalI16, i16, int16);
// @h name=c13_int_u128_to_i32 props=C13 tier=thorough
int_to_int!(c13_int_u128_to_i32, PhysicalU128, u128, PhysicalI32, i32, int32);
// @h name=c13_int_u128_to_i64 props=C13 tier=thorough
int_to_int!(c13_int_u128_to_i64, PhysicalU128, u128, PhysicalI64, i64, int64);
// @h name=c13_int_u128_to_i128 props=C13 tier=thorough
int_to_int!(c13_int_u128_to_i128, PhysicalU128, u128, PhysicalI128, i128, int128);
// @h name=c13_int_u128_to_u8 props=C13 tier=thorough
int_to_int!(c13_int_u128_to_u8, PhysicalU128, u128, PhysicalU8, u8, uint8);
// @h name=c13_int_u128_to_u16 props=C13 tier=thorough
int_to_int!(c13_int_u128_to_u16, PhysicalU128, u128, PhysicalU16, u16, uint16);
// @h name=c13_int_u128_to_u32 props=C13 tier=thorough
int_to_int!(c13_int_u128_to_u32, PhysicalU128, u128, PhysicalU32, u32, uint32);
// @h name=c13_int_u128_to_u64 props=C13 tier=thorough
int_to_int!(c13_int_u128_to_u64, PhysicalU128, u128, PhysicalU64, u64, uint64);
// @h name=c13_float_f32_to_i8 props=C13 tier=thorough
float_to_int!(c13_float_f32_to_i8, PhysicalF32, f32, PhysicalI8, i8, int8);
// @h name=c13_float_f32_to_i16 props=C13 tier=thorough
float_to_int!(c13_float_f32_to_i16, PhysicalF32, f32, PhysicalI16, i16, int16);
// @h name=c13_float_f32_to_i32 props=C13 tier=thorough
float_to_int!(c13_float_f32_to_i32, PhysicalF32, f32, PhysicalI32, i32, int32);
// @h name=c13_float_f32_to_i64 props=C13 tier=quick
float_to_int!(c13_float_f32_to_i64, PhysicalF32, f32, PhysicalI64, i64, int64);
// @h name=c13_float_f32_to_u8 props=C13 tier=thorough
float_to_int!(c13_float_f32_to_u8, PhysicalF32, f32, PhysicalU8, u8, uint8);
// @h name=c13_float_f32_to_u16 props=C13 tier=thorough
float_to_int!(c13_float_f32_to_u16, PhysicalF32, f32, PhysicalU16, u16, uint16);
// @h name=c13_float_f32_to_u32 props=C13 tier=thorough
float_to_int!(c13_float_f32_to_u32, PhysicalF32, f32, PhysicalU32, u32, uint32);
// @h name=c13_float_f32_to_u64 props=C13 tier=thorough
float_to_int!(c13_float_f32_to_u64, PhysicalF32, f32, PhysicalU64, u64, uint64);
// @h name=c13_float_f64_to_i8 props=C13 tier=thorough
float_to_int!(c13_float_f64_to_i8, PhysicalF64, f64, PhysicalI8, i8, int8);
// @h name=c13_float_f64_to_i16 props=C13 tier=thorough
float_to_int!(c13_float_f64_to_i16, PhysicalF64, f64, PhysicalI16, i16, int16);
// @h name=c13_float_f64_to_i32 props=C13 tier=quick
float_to_int!(c13_float_f64_to_i32, PhysicalF64, f64, PhysicalI32, i32, int32);
// @h name=c13_float_f64_to_i64 props=C13 tier=thorough
float_to_int!(c13_float_f64_to_i64, PhysicalF64, f64, PhysicalI64, i64, int64);
// @h name=c13_float_f64_to_u8 props=C13 tier=quick
float_to_int!(c13_float_f64_to_u8, PhysicalF64, f64, PhysicalU8, u8, uint8);
// @h name=c13_float_f64_to_u16 props=C13 tier=thorough
float_to_int!(c13_float_f64_to_u16, PhysicalF64, f64, PhysicalU16, u16, uint16);
// @h name=c13_float_f64_to_u32 props=C13 tier=thorough
float_to_int!(c13_float_f64_to_u32, PhysicalF64, f64, PhysicalU32, u32, uint32);
// @h name=c13_float_f64_to_u64 props=C13 tier=thorough
float_to_int!(c13_float_f64_to_u64, PhysicalF64, f64, PhysicalU64, u64, uint64);
// @h name=c13_i8_to_dec64_p9s2 props=C13,C12 tier=thorough
int_to_dec!(c13_i8_to_dec64_p9s2, PhysicalI8, i8, Decimal64Type, PhysicalI64, i64, decimal64, 9, 2);
// @h name=c13_i8_to_dec64_p18s0 props=C13,C12 tier=thorough
int_to_dec!(c13_i8_to_dec64_p18s0, PhysicalI8, i8, Decimal64Type, PhysicalI64, i64, decimal64, 18, 0);
// @h name=c13_i8_to_dec64_p18s3 props=C13,C12 tier=thorough
int_to_dec!(c13_i8_to_dec64_p18s3, PhysicalI8, i8, Decimal64Type, PhysicalI64, i64, decimal64, 18, 3);
// @h name=c13_i8_to_dec64_p4s4 props=C13,C12 tier=thorough
int_to_dec!(c13_i8_to_dec64_p4s4, PhysicalI8, i8, Decimal64Type, PhysicalI64, i64, decimal64, 4, 4);
// @h name=c13_i8_to_dec128_p38s12 props=C13,C12 tier=thorough
int_to_dec!(c13_i8_to_dec128_p38s12, PhysicalI8, i8, Decimal128Type, PhysicalI128, i128, decimal128, 38, 12);
// @h name=c13_i8_to_dec128_p20s0 props=C13,C12 tier=thorough
int_to_dec!(c13_i8_to_dec128_p20s0, PhysicalI8, i8, Decimal128Type, PhysicalI128, i128, decimal128, 20, 0);
// @h name=c13_i16_to_dec64_p9s2 props=C13,C12 tier=thorough
int_to_dec!(c13_i16_to_dec64_p9s2, PhysicalI16, i16, Decimal64Type, PhysicalI64, i64, decimal64, 9, 2);
// @h name=c13_i16_to_dec64_p18s0 props=C13,C12 tier=thorough
int_to_dec!(c13_i16_to_dec64_p18s0, PhysicalI16, i16, Decimal64Type, PhysicalI64, i64, decimal64, 18, 0);
// @h name=c13_i16_to_dec64_p18s3 props=C13,C12 tier=thorough
int_to_dec!(c13_i16_to_dec64_p18s3, PhysicalI16, i16, Decimal64Type, PhysicalI64, i64, decimal64, 18, 3);
// @h name=c13_i16_to_dec64_p4s4 props=C13,C12 tier=quick
int_to_dec!(c13_i16_to_dec64_p4s4, PhysicalI16, i16, Decimal64Type, PhysicalI64, i64, decimal64, 4, 4);
// @h name=c13_i16_to_dec128_p38s12 props=C13,C12 tier=thorough
int_to_dec!(c13_i16_to_dec128_p38s12, PhysicalI16, i16, Decimal128Type, PhysicalI128, i128, decimal128, 38, 12);
// @h name=c13_i16_to_dec128_p20s0 props=C13,C12 tier=thorough
int_to_dec!(c13_i16_to_dec128_p20s0, PhysicalI16, i16, Decimal128Type, PhysicalI128, i128, decimal128, 20, 0);
// @h name=c13_i32_to_dec64_p9s2 props=C13,C12 tier=quick
int_to_dec!(c13_i32_to_dec64_p9s2, PhysicalI32, i32, Decimal64Type, PhysicalI64, i64, decimal64, 9, 2);
// @h name=c13_i32_to_dec64_p18s0 props=C13,C12 tier=thorough
int_to_dec!(c13_i32_to_dec64_p18s0, PhysicalI32, i32, Decimal64Type, PhysicalI64, i64, decimal64, 18, 0);
// @h name=c13_i32_to_dec64_p18s3 props=C13,C12 tier=thorough
int_to_dec!(c13_i32_to_dec64_p18s3, PhysicalI32, i32, Decimal64Type, PhysicalI64, i64, decimal64, 18, 3);
// @h name=c13_i32_to_dec64_p4s4 props=C13,C12 tier=thorough
int_to_dec!(c13_i32_to_dec64_p4s4, PhysicalI32, i32, Decimal64Type, PhysicalI64, i64, decimal64, 4, 4);
// @h name=c13_i32_to_dec128_p38s12 props=C13,C12 tier=thorough
int_to_dec!(c13_i32_to_dec128_p38s12, PhysicalI32, i32, Decimal128Type, PhysicalI128, i128, decimal128, 38, 12);
// @h name=c13_i32_to_dec128_p20s0 props=C13,C12 tier=thorough
int_to_dec!(c13_i32_to_dec128_p20s0, PhysicalI32, i32, Decimal128Type, PhysicalI128, i128, decimal128, 20, 0);
// @h name=c13_i64_to_dec64_p9s2 props=C13,C12 tier=thorough
int_to_dec!(c13_i64_to_dec64_p9s2, PhysicalI64, i64, Decimal64Type, PhysicalI64, i64, decimal64, 9, 2);
// @h name=c13_i64_to_dec64_p18s0 props=C13,C12 tier=quick
int_to_dec!(c13_i64_to_dec64_p18s0, PhysicalI64, i64, Decimal64Type, PhysicalI64, i64, decimal64, 18, 0);
// @h name=c13_i64_to_dec64_p18s3 props=C13,C12 tier=thorough
int_to_dec!(c13_i64_to_dec64_p18s3, PhysicalI64, i64, Decimal64Type, PhysicalI64, i64, decimal64, 18, 3);
// @h name=c13_i64_to_dec64_p4s4 props=C13,C12 tier=thorough
int_to_dec!(c13_i64_to_dec64_p4s4, PhysicalI64, i64, Decimal64Type, PhysicalI64, i64, decimal64, 4, 4);
// @h name=c13_i64_to_dec128_p38s12 props=C13,C12 tier=quick
int_to_dec!(c13_i64_to_dec128_p38s12, PhysicalI64, i64, Decimal128Type, PhysicalI128, i128, decimal128, 38, 12);
// @h name=c13_i64_to_dec128_p20s0 props=C13,C12 tier=thorough
int_to_dec!(c13_i64_to_dec128_p20s0, PhysicalI64, i64, Decimal128Type, PhysicalI128, i128, decimal128, 20, 0);
// @h name=c13_u8_to_dec64_p9s2 props=C13,C12 tier=thorough
int_to_dec!(c13_u8_to_dec64_p9s2, PhysicalU8, u8, Decimal64Type, PhysicalI64, i64, decimal64, 9, 2);
// @h name=c13_u8_to_dec64_p18s0 props=C13,C12 tier=thorough
int_to_dec!(c13_u8_to_dec64_p18s0, PhysicalU8, u8, Decimal64Type, PhysicalI64, i64, decimal64, 18, 0);
// @h name=c13_u8_to_dec64_p18s3 props=C13,C12 tier=thorough
int_to_dec!(c13_u8_to_dec64_p18s3, PhysicalU8, u8, Decimal64Type, PhysicalI64, i64, decimal64, 18, 3);
// @h name=c13_u8_to_dec64_p4s4 props=C13,C12 tier=thorough
int_to_dec!(c13_u8_to_dec64_p4s4, PhysicalU8, u8, Decimal64Type, PhysicalI64, i64, decimal64, 4, 4);
// @h name=c13_u8_to_dec128_p38s12 props=C13,C12 tier=thorough
int_to_dec!(c13_u8_to_dec128_p38s12, PhysicalU8, u8, Decimal128Type, PhysicalI128, i128, decimal128, 38, 12);
// @h name=c13_u8_to_dec128_p20s0 props=C13,C12 tier=thorough
int_to_dec!(c13_u8_to_dec128_p20s0, PhysicalU8, u8, Decimal128Type, PhysicalI128, i128, decimal128, 20, 0);
// @h name=c13_u16_to_dec64_p9s2 props=C13,C12 tier=thorough
int_to_dec!(c13_u16_to_dec64_p9s2, PhysicalU16, u16, Decimal64Type, PhysicalI64, i64, decimal64, 9, 2);
// @h name=c13_u16_to_dec64_p18s0 props=C13,C12 tier=thorough
int_to_dec!(c13_u16_to_dec64_p18s0, PhysicalU16, u16, Decimal64Type, PhysicalI64, i64, decimal64, 18, 0);
// @h name=c13_u16_to_dec64_p18s3 props=C13,C12 tier=thorough
int_to_dec!(c13_u16_to_dec64_p18s3, PhysicalU16, u16, Decimal64Type, PhysicalI64, i64, decimal64, 18, 3);
// @h name=c13_u16_to_dec64_p4s4 props=C13,C12 tier=thorough
int_to_dec!(c13_u16_to_dec64_p4s4, PhysicalU16, u16, Decimal64Type, PhysicalI64, i64, decimal64, 4, 4);
// @h name=c13_u16_to_dec128_p38s12 props=C13,C12 tier=thorough
int_to_dec!(c13_u16_to_dec128_p38s12, PhysicalU16, u16, Decimal128Type, PhysicalI128, i128, decimal128, 38, 12);
// @h name=c13_u16_to_dec128_p20s0 props=C13,C12 tier=thorough
int_to_dec!(c13_u16_to_dec128_p20s0, PhysicalU16, u16, Decimal128Type, PhysicalI128, i128, decimal128, 20, 0);
// @h name=c13_u32_to_dec64_p9s2 props=C13,C12 tier=thorough
int_to_dec!(c13_u32_to_dec64_p9s2, PhysicalU32, u32, Decimal64Type, PhysicalI64, i64, decimal64, 9, 2);
// @h name=c13_u32_to_dec64_p18s0 props=C13,C12 tier=thorough
int_to_dec!(c13_u32_to_dec64_p18s0, PhysicalU32, u32, Decimal64Type, PhysicalI64, i64, decimal64, 18, 0);
// @h name=c13_u32_to_dec64_p18s3 props=C13,C12 tier=thorough
int_to_dec!(c13_u32_to_dec64_p18s3, PhysicalU32, u32, Decimal64Type, PhysicalI64, i64, decimal64, 18, 3);
// @h name=c13_u32_to_dec64_p4s4 props=C13,C12 tier=thorough
int_to_dec!(c13_u32_to_dec64_p4s4, PhysicalU32, u32, Decimal64Type, PhysicalI64, i64, decimal64, 4, 4);
// @h name=c13_u32_to_dec128_p38s12 props=C13,C12 tier=thorough
int_to_dec!(c13_u32_to_dec128_p38s12, PhysicalU32, u32, Decimal128Type, PhysicalI128, i128, decimal128, 38, 12);
// @h name=c13_u32_to_dec128_p20s0 props=C13,C12 tier=thorough
int_to_dec!(c13_u32_to_dec128_p20s0, PhysicalU32, u32, Decimal128Type, PhysicalI128, i128, decimal128, 20, 0);
// @h name=c13_u64_to_dec64_p9s2 props=C13,C12 tier=thorough
int_to_dec!(c13_u64_to_dec64_p9s2, PhysicalU64, u64, Decimal64Type, PhysicalI64, i64, decimal64, 9, 2);
// @h name=c13_u64_to_dec64_p18s0 props=C13,C12 tier=thorough
int_to_dec!(c13_u64_to_dec64_p18s0, PhysicalU64, u64, Decimal64Type, PhysicalI64, i64, decimal64, 18, 0);
// @h name=c13_u64_to_dec64_p18s3 props=C13,C12 tier=thorough
int_to_dec!(c13_u64_to_dec64_p18s3, PhysicalU64, u64, Decimal64Type, PhysicalI64, i64, decimal64, 18, 3);
// @h name=c13_u64_to_dec64_p4s4 props=C13,C12 tier=thorough
int_to_dec!(c13_u64_to_dec64_p4s4, PhysicalU64, u64, Decimal64Type, PhysicalI64, i64, decimal64, 4, 4);
// @h name=c13_u64_to_dec128_p38s12 props=C13,C12 tier=thorough
int_to_dec!(c13_u64_to_dec128_p38s12, PhysicalU64, u64, Decimal128Type, PhysicalI128, i128, decimal128, 38, 12);
// @h name=c13_u64_to_dec128_p20s0 props=C13,C12 tier=thorough
int_to_dec!(c13_u64_to_dec128_p20s0, PhysicalU64, u64, Decimal128Type, PhysicalI128, i128, decimal128, 20, 0);
// @h name=c13_dec64_p6s4_to_dec64_p3s2 props=C13,C12 tier=quick
dec_to_dec!(c13_dec64_p6s4_to_dec64_p3s2, Decimal64Type, PhysicalI64, i64, decimal64, Decimal64Type, PhysicalI64, i64, decimal64, 6, 4, 3, 2);
// @h name=c13_dec64_p9s2_to_dec64_p12s5 props=C13,C12 tier=quick
dec_to_dec!(c13_dec64_p9s2_to_dec64_p12s5, Decimal64Type, PhysicalI64, i64, decimal64, Decimal64Type, PhysicalI64, i64, decimal64, 9, 2, 12, 5);
// @h name=c13_dec64_p18s3_to_dec128_p38s9 props=C13,C12 tier=thorough
dec_to_dec!(c13_dec64_p18s3_to_dec128_p38s9, Decimal64Type, PhysicalI64, i64, decimal64, Decimal128Type, PhysicalI128, i128, decimal128, 18, 3, 38, 9);
// @h name=c13_dec128_p30s3_to_dec128_p30s1 props=C13,C12 tier=thorough
dec_to_dec!(c13_dec128_p30s3_to_dec128_p30s1, Decimal128Type, PhysicalI128, i128, decimal128, Decimal128Type, PhysicalI128, i128, decimal128, 30, 3, 30, 1);
// @h name=c13_dec64_p18s0_to_dec64_p18s6 props=C13,C12 tier=thorough
dec_to_dec!(c13_dec64_p18s0_to_dec64_p18s6, Decimal64Type, PhysicalI64, i64, decimal64, Decimal64Type, PhysicalI64, i64, decimal64, 18, 0, 18, 6);
// @h name=c13_dec64_p10s5_to_dec64_p10s0 props=C13,C12 tier=quick
dec_to_dec!(c13_dec64_p10s5_to_dec64_p10s0, Decimal64Type, PhysicalI64, i64, decimal64, Decimal64Type, PhysicalI64, i64, decimal64, 10, 5, 10, 0);
// @h name=c13_dec128_p30s6_to_dec128_p38s6 props=C13,C12 tier=thorough
dec_to_dec!(c13_dec128_p30s6_to_dec128_p38s6, Decimal128Type, PhysicalI128, i128, decimal128, Decimal128Type, PhysicalI128, i128, decimal128, 30, 6, 38, 6);
// @h name=c13_dec64_p5s2_to_dec64_p5s2 props=C13,C12 tier=thorough
dec_to_dec!(c13_dec64_p5s2_to_dec64_p5s2, Decimal64Type, PhysicalI64, i64, decimal64, Decimal64Type, PhysicalI64, i64, decimal64, 5, 2, 5, 2);
// @h name=c13_dec64_p12s3_to_dec64_p12s1 props=C13,C12 tier=thorough
dec_to_dec!(c13_dec64_p12s3_to_dec64_p12s1, Decimal64Type, PhysicalI64, i64, decimal64, Decimal64Type, PhysicalI64, i64, decimal64, 12, 3, 12, 1);

// (float -> decimal harnesses were written and removed: CBMC's model of f64::round / the float->int
// NumCast produced counterexamples that pass natively - see DESIGN.md section 6.)
