// @module crate=glaredb_core parent=src/functions/cast/parse.rs
// @encodes DecimalParser::<i64>::parse, BoolParser::parse
// @bounds input: symbolic byte string of length <= 5 over the alphabet {0,1,4,5,9,.,-,+,e,a,space}; (precision, scale) concrete per harness; unwind 8
//! C13: text -> DECIMAL(p,s). Reference semantics (written from the property):
//! grammar  [+-]? digit* ( '.' digit* )?  with at least one digit; anything else is an
//! error (None). The value is rounded half away from zero to `s` fractional digits and
//! must have at most `p` digits, else error.
//! Regions: H = at least one digit, no more than `s` fractional digits, integer part short
//! enough that padding cannot exceed `p` digits (where today's parser is right, incl. all
//! rejections of malformed text); D1 = no digit at all; D2 = more than `s` fractional
//! digits (rounding); D3 = value needs more than `p` digits only after padding to scale.
use super::*;

const N: usize = 5;

fn alpha(b: u8) -> bool {
    matches!(b, b'0' | b'1' | b'4' | b'5' | b'9' | b'.' | b'-' | b'+' | b'e' | b'a' | b' ')
}

/// Reference scan: (well_formed, negative, integer value, number of integer digits w/o leading
/// zeros, fractional digits (first N), number of fractional digits, total digits seen)
struct Scan {
    ok: bool,
    neg: bool,
    int_val: i64,
    int_digits: u32,
    frac: [u8; N],
    nfrac: usize,
    ndigits: usize,
}
fn scan(bs: &[u8]) -> Scan {
    let mut sc = Scan { ok: true, neg: false, int_val: 0, int_digits: 0, frac: [0; N], nfrac: 0, ndigits: 0 };
    let mut i = 0;
    if i < bs.len() && (bs[i] == b'-' || bs[i] == b'+') {
        sc.neg = bs[i] == b'-';
        i += 1;
    }
    let mut seen_dot = false;
    while i < bs.len() {
        let b = bs[i];
        if b >= b'0' && b <= b'9' {
            sc.ndigits += 1;
            if !seen_dot {
                if !(sc.int_digits == 0 && b == b'0') {
                    sc.int_digits += 1;
                    sc.int_val = sc.int_val * 10 + (b - b'0') as i64;
                }
            } else {
                sc.frac[sc.nfrac] = b - b'0';
                sc.nfrac += 1;
            }
        } else if b == b'.' && !seen_dot {
            seen_dot = true;
        } else {
            sc.ok = false;
        }
        i += 1;
    }
    sc
}

const fn pow10(n: u32) -> i64 {
    10i64.pow(n)
}

macro_rules! dec_text {
    ($name:ident, $p:expr, $s:expr, $region:ident) => {
        #[kani::proof]
        #[kani::unwind(8)]
        fn $name() {
            let bytes: [u8; N] = kani::any();
            let len: usize = kani::any();
            kani::assume(len <= N);
            let mut i = 0;
            while i < N {
                kani::assume(alpha(bytes[i]));
                i += 1;
            }
            let text = unsafe { core::str::from_utf8_unchecked(&bytes[..len]) };
            let sc = scan(&bytes[..len]);
            let s: usize = $s;
            let p: u32 = $p;
            let malformed = !sc.ok;
            let no_digit = sc.ok && sc.ndigits == 0;
            let excess_frac = sc.ok && sc.nfrac > s;
            // digits of the unscaled value after padding to scale s (no rounding involved when nfrac <= s)
            let padded_digits = if sc.int_digits > 0 { sc.int_digits + s as u32 } else { 0 };
            let overflow_after_pad = sc.ok && sc.ndigits > 0 && !excess_frac && padded_digits > p
                && (sc.int_digits + sc.nfrac as u32) <= p;
            dec_region!($region, malformed, no_digit, excess_frac, overflow_after_pad);
            kani::cover!(true);
            let got = DecimalParser::<i64>::new($p as u8, $s as i8).parse(text);
            if malformed || no_digit {
                assert!(got.is_none(), "text that is not a decimal number must be rejected");
            } else {
                // exact unscaled value rounded half away from zero to s fractional digits
                let mut v: i64 = sc.int_val;
                let mut k = 0;
                while k < s {
                    let d = if k < sc.nfrac { sc.frac[k] } else { 0 };
                    v = v * 10 + d as i64;
                    k += 1;
                }
                if sc.nfrac > s && sc.frac[s] >= 5 {
                    v += 1;
                }
                let fits = v < pow10(p);
                let want = if fits { Some(if sc.neg { -v } else { v }) } else { None };
                assert!(got == want, "decimal text is parsed exactly (rounded half away from zero) or rejected when it exceeds the precision");
            }
        }
    };
}
macro_rules! dec_region {
    (H, $m:expr, $nd:expr, $ef:expr, $op:expr) => { kani::assume(!$nd && !$ef && !$op); };
    (D1, $m:expr, $nd:expr, $ef:expr, $op:expr) => { kani::assume($nd); };
    (D2, $m:expr, $nd:expr, $ef:expr, $op:expr) => { kani::assume($ef); };
    (D3, $m:expr, $nd:expr, $ef:expr, $op:expr) => { kani::assume($op); };
}

// @h name=c13_dectext_p5s1_h props=C13 tier=quick
dec_text!(c13_dectext_p5s1_h, 5, 1, H);
// @h name=c13_dectext_p3s2_h props=C13 tier=quick
dec_text!(c13_dectext_p3s2_h, 3, 2, H);
// @h name=c13_dectext_p4s0_h props=C13 tier=thorough
dec_text!(c13_dectext_p4s0_h, 4, 0, H);
// @h name=c13_dectext_p5s1_nodigit props=C13 tier=quick
dec_text!(c13_dectext_p5s1_nodigit, 5, 1, D1);
// @h name=c13_dectext_p5s1_excess_frac props=C13 tier=quick
dec_text!(c13_dectext_p5s1_excess_frac, 5, 1, D2);
// @h name=c13_dectext_p3s2_pad_overflow props=C13 tier=quick
dec_text!(c13_dectext_p3s2_pad_overflow, 3, 2, D3);

// @h name=c13_bool_text props=C13 tier=quick
#[kani::proof]
#[kani::unwind(8)]
fn c13_bool_text() {
    let bytes: [u8; 5] = kani::any();
    let len: usize = kani::any();
    kani::assume(len <= 5);
    let mut i = 0;
    while i < 5 {
        kani::assume(bytes[i] < 0x80);
        i += 1;
    }
    let text = unsafe { core::str::from_utf8_unchecked(&bytes[..len]) };
    let got = BoolParser.parse(text);
    let b = &bytes[..len];
    let is_true = b == b"t" || b == b"true" || b == b"TRUE" || b == b"T";
    let is_false = b == b"f" || b == b"false" || b == b"FALSE" || b == b"F";
    kani::cover!(is_true);
    kani::cover!(is_false);
    assert!(got == if is_true { Some(true) } else if is_false { Some(false) } else { None },
        "boolean text: exactly the documented spellings");
}
