// @module crate=glaredb_core parent=src/buffer/mod.rs
// @encodes DbVec::<u8>::{with_capacity,push_slice,push_slice_no_resize,resize_uninit,as_slice,as_slice_mut,len,capacity}, RawDbVec::{new_uninit,resize}, DefaultBufferManager allocate/reallocate/deallocate (incl. the zero-size path), StringPtr::{new_inline,new_reference,as_bytes}, StringView::{new_inline,new_reference,to_bytes,from_bytes,is_inline,data_len}
// @bounds DbVec<u8>: capacity 0..=2, two pushes of concrete length (0..=3 enumerated in the harness) with symbolic bytes, one resize; strings of concrete length 0..=16 (enumerated around the 12-byte inline threshold) with symbolic bytes; unwind 20. Every access is checked by CBMC's pointer checks (null/dangling/out-of-bounds/misaligned dereference, overlap in copy_nonoverlapping, double free); sequential only.
//! C16: the hand-managed buffers stay inside the memory they own and read back what was
//! written: DbVec growth/reallocation, the 12-byte inline threshold of the string views.
#![allow(unused_imports)]
use crate::arrays::string::{MAX_INLINE_LEN, StringPtr, StringView};
use crate::buffer::buffer_manager::DefaultBufferManager;
use crate::buffer::db_vec::DbVec;
use crate::kani_verif_support::*;

macro_rules! dbvec_push {
    ($name:ident, $cap:expr, $l1:expr, $l2:expr) => {
        #[kani::proof]
        #[kani::unwind(20)]
        #[kani::stub(alloc::fmt::format, crate::kani_verif_support::stub_format)]
        #[kani::stub(std::backtrace::Backtrace::capture, crate::kani_verif_support::stub_backtrace)]
        fn $name() {
            let a: [u8; $l1] = kani::any();
            let b: [u8; $l2] = kani::any();
            let mut v = ok(DbVec::<u8>::with_capacity(&DefaultBufferManager, $cap));
            assert!(v.len() == 0 && v.capacity() >= $cap, "with_capacity: empty, at least the requested capacity");
            assert!(is_ok_forget(v.push_slice(&a)), "push grows the buffer when needed");
            assert!(is_ok_forget(v.push_slice(&b)), "second push");
            assert!(v.len() == $l1 + $l2 && v.len() <= v.capacity(), "length is the sum of the pushes and within capacity");
            {
                let s = v.as_slice();
                let mut i = 0;
                while i < $l1 {
                    assert!(s[i] == a[i], "first slice read back unchanged (also after reallocation)");
                    i += 1;
                }
                let mut j = 0;
                while j < $l2 {
                    assert!(s[$l1 + j] == b[j], "second slice read back");
                    j += 1;
                }
            }
            // shrink, then grow again and write the new tail before reading it
            assert!(is_ok_forget(unsafe { v.resize_uninit($l1) }), "shrink");
            assert!(v.len() == $l1, "shrunk length");
            assert!(is_ok_forget(unsafe { v.resize_uninit($l1 + 2) }), "grow");
            {
                let s = v.as_slice_mut();
                s[$l1] = 7;
                s[$l1 + 1] = 9;
            }
            let s = v.as_slice();
            assert!(s.len() == $l1 + 2 && s[$l1] == 7 && s[$l1 + 1] == 9, "grown tail is writable and readable");
            let mut i = 0;
            while i < $l1 {
                assert!(s[i] == a[i], "prefix survives shrink + grow");
                i += 1;
            }
            kani::cover!(true);
            // dropped here: deallocation is checked too (double free / invalid free)
        }
    };
}
// @h name=c16_dbvec_push_c0_2_3 props=C16 tier=quick
dbvec_push!(c16_dbvec_push_c0_2_3, 0, 2, 3);
// @h name=c16_dbvec_push_c2_1_1 props=C16 tier=quick
dbvec_push!(c16_dbvec_push_c2_1_1, 2, 1, 1);
// @h name=c16_dbvec_push_c1_0_3 props=C16 tier=thorough
dbvec_push!(c16_dbvec_push_c1_0_3, 1, 0, 3);
// @h name=c16_dbvec_push_c2_3_0 props=C16 tier=thorough
dbvec_push!(c16_dbvec_push_c2_3_0, 2, 3, 0);

// @h name=c16_dbvec_no_resize props=C16 tier=quick
#[kani::proof]
#[kani::unwind(20)]
#[kani::stub(alloc::fmt::format, crate::kani_verif_support::stub_format)]
#[kani::stub(std::backtrace::Backtrace::capture, crate::kani_verif_support::stub_backtrace)]
fn c16_dbvec_no_resize() {
    let a: [u8; 2] = kani::any();
    let b: [u8; 2] = kani::any();
    let mut v = ok(DbVec::<u8>::with_capacity(&DefaultBufferManager, 3));
    assert!(is_ok_forget(v.push_slice_no_resize(&a)), "fits");
    let cap = v.capacity();
    let fits = 4 <= cap;
    let r = is_ok_forget(v.push_slice_no_resize(&b));
    assert!(r == fits, "push_slice_no_resize succeeds exactly when the elements fit the current capacity");
    assert!(v.capacity() == cap && v.len() == if fits { 4 } else { 2 }, "never reallocates; length unchanged on error");
    core::mem::forget(v);
}

macro_rules! string_ptr_roundtrip {
    ($name:ident, $len:expr) => {
        #[kani::proof]
        #[kani::unwind(20)]
        fn $name() {
            let data: [u8; $len] = kani::any();
            let p = if $len <= MAX_INLINE_LEN { StringPtr::new_inline(&data) } else { StringPtr::new_reference(&data) };
            assert!(p.is_inline() == ($len <= 12) && p.data_len() == $len as i32, "inline exactly up to 12 bytes");
            let back = p.as_bytes();
            assert!(back.len() == $len, "length preserved");
            let mut i = 0;
            while i < $len {
                assert!(back[i] == data[i], "bytes read back through the pointer view");
                i += 1;
            }
            // byte-level round trip used when views are stored in row blocks
            let q = StringPtr::from_bytes(p.to_bytes());
            assert!(q.data_len() == $len as i32 && q.is_inline() == p.is_inline(), "to_bytes/from_bytes round trip");
            let v = if $len <= MAX_INLINE_LEN { StringView::new_inline(&data) } else { StringView::new_reference(&data, 3, 40) };
            assert!(v.is_inline() == ($len <= 12) && v.data_len() == $len as i32, "view: inline exactly up to 12 bytes");
            if $len > 12 {
                let r = v.as_reference();
                assert!(r.buffer_idx == 3 && r.offset == 40 && r.prefix[0] == data[0] && r.prefix[3] == data[3], "reference view keeps prefix, buffer and offset");
            } else {
                let inl = v.as_inline();
                let mut i = 0;
                while i < $len {
                    assert!(inl.inline[i] == data[i], "inline view holds the bytes");
                    i += 1;
                }
            }
            kani::cover!(true);
        }
    };
}
// @h name=c16_string_len0 props=C16,C20 tier=thorough
string_ptr_roundtrip!(c16_string_len0, 0);
// @h name=c16_string_len11 props=C16,C20 tier=thorough
string_ptr_roundtrip!(c16_string_len11, 11);
// @h name=c16_string_len12 props=C16,C20 tier=quick
string_ptr_roundtrip!(c16_string_len12, 12);
// @h name=c16_string_len13 props=C16,C20 tier=quick
string_ptr_roundtrip!(c16_string_len13, 13);
// @h name=c16_string_len16 props=C16,C20 tier=thorough
string_ptr_roundtrip!(c16_string_len16, 16);
