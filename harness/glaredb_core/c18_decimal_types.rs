// @module crate=glaredb_core parent=src/functions/scalar/builtin/arith/decimal_arith.rs
// @encodes common_add_sub_decimal_type_info::<Decimal64Type>, common_add_sub_decimal_type_info::<Decimal128Type>, DecimalTypeMeta::new_for_datatype_id, DecimalType::decimal_meta_opt
// @bounds both operand types symbolic: any DECIMAL(p,s) with 1 <= p <= MAX_PRECISION of the decimal kind and 0 <= s <= p, or one of the integer types; unwind 4
//! C18 / C12: the result type announced for decimal +/- is a legal decimal type, follows the
//! documented rule (scale = max scale; precision = max integer digits + scale + 1, capped at
//! the kind's maximum with `precision_exceeded` set), is computed without intermediate
//! overflow, and is the same for (a, b) and (b, a).
#![allow(unused_imports)]
use super::*;
use crate::arrays::datatype::DataTypeId;
use crate::arrays::scalar::decimal::{Decimal64Type, Decimal128Type};
use crate::kani_verif_support::*;

fn any_operand(sel: u8, p: u8, s: i8, wide: bool) -> (DataType, u8, i8) {
    match sel % 6 {
        0 => (if wide { DataType::decimal128(DecimalTypeMeta::new(p, s)) } else { DataType::decimal64(DecimalTypeMeta::new(p, s)) }, p, s),
        1 => (DataType::int8(), 3, 0),
        2 => (DataType::int16(), 5, 0),
        3 => (DataType::int32(), 10, 0),
        4 => (DataType::uint8(), 3, 0),
        _ => (DataType::uint16(), 5, 0),
    }
}

macro_rules! addsub_type {
    ($name:ident, $D:ty, $max:expr, $mk:ident) => {
        #[kani::proof]
        #[kani::unwind(4)]
        #[kani::stub(alloc::fmt::format, crate::kani_verif_support::stub_format)]
        #[kani::stub(std::backtrace::Backtrace::capture, crate::kani_verif_support::stub_backtrace)]
        fn $name() {
            let (p1, p2): (u8, u8) = (kani::any(), kani::any());
            let (s1, s2): (i8, i8) = (kani::any(), kani::any());
            kani::assume(p1 >= 1 && p1 <= $max && s1 >= 0 && (s1 as u8) <= p1);
            kani::assume(p2 >= 1 && p2 <= $max && s2 >= 0 && (s2 as u8) <= p2);
            let (l, lp, ls) = any_operand(kani::any(), p1, s1, $max == 38);
            let (r, rp, rs) = any_operand(kani::any(), p2, s2, $max == 38);
            let res = common_add_sub_decimal_type_info::<$D>(&l, &r);
            let info = match res { Ok(i) => i, Err(e) => { core::mem::forget(e); panic!("type computation failed for legal operands") } };
            let scale = if ls > rs { ls } else { rs };
            let int_digits = core::cmp::max(lp as i32 - ls as i32, rp as i32 - rs as i32);
            let uncapped = int_digits + scale as i32 + 1;
            kani::cover!(uncapped > $max);
            kani::cover!(uncapped <= $max && ls != rs);
            assert!(info.meta.scale == scale, "result scale = larger operand scale");
            assert!(info.meta.precision as i32 == core::cmp::min(uncapped, $max), "result precision = integer digits + scale + 1, capped");
            assert!(info.precision_exceeded == (uncapped > $max), "cap is reported");
            assert!(info.meta.precision >= 1 && info.meta.precision <= $max && info.meta.scale >= 0
                && (info.meta.scale as u8) <= info.meta.precision, "announced type is a legal decimal type");
            // symmetric
            let back = common_add_sub_decimal_type_info::<$D>(&r, &l);
            let info2 = match back { Ok(i) => i, Err(e) => { core::mem::forget(e); panic!("type computation failed") } };
            assert!(info2 == info, "same result type for (a, b) and (b, a)");
            core::mem::forget(l);
            core::mem::forget(r);
        }
    };
}
// @h name=c18_addsub_type_decimal64 props=C18,C12 tier=quick
addsub_type!(c18_addsub_type_decimal64, Decimal64Type, 18, decimal64);
// @h name=c18_addsub_type_decimal128 props=C18,C12 tier=quick
addsub_type!(c18_addsub_type_decimal128, Decimal128Type, 38, decimal128);

/// Negative scales are accepted by the type resolver (only scale <= precision is checked):
/// the type computation must not overflow its i8/u8 arithmetic on them.
// @h name=c18_addsub_type_negative_scale props=C18,C15 tier=quick
#[kani::proof]
#[kani::unwind(4)]
#[kani::stub(alloc::fmt::format, crate::kani_verif_support::stub_format)]
#[kani::stub(std::backtrace::Backtrace::capture, crate::kani_verif_support::stub_backtrace)]
fn c18_addsub_type_negative_scale() {
    let (p1, p2): (u8, u8) = (kani::any(), kani::any());
    let (s1, s2): (i8, i8) = (kani::any(), kani::any());
    kani::assume(p1 >= 1 && p1 <= 18 && p2 >= 1 && p2 <= 18);
    kani::assume(s1 < 0 && s2 <= p2 as i8);
    let l = DataType::decimal64(DecimalTypeMeta::new(p1, s1));
    let r = DataType::decimal64(DecimalTypeMeta::new(p2, s2));
    kani::cover!(s1 == -128);
    let res = common_add_sub_decimal_type_info::<Decimal64Type>(&l, &r);
    // Ok or Err, but no arithmetic overflow / panic; if Ok the type must be legal
    if let Ok(info) = &res {
        assert!(info.meta.precision <= 18, "announced precision within the kind's maximum");
    }
    core::mem::forget(res);
    core::mem::forget(l);
    core::mem::forget(r);
}
