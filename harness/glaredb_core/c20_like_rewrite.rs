// @module crate=glaredb_core parent=src/optimizer/expr_rewrite/like.rs
// @encodes can_str_compare, is_prefix_pattern, is_suffix_pattern, is_contains_pattern, has_escape, str::trim_matches('%') as applied by LikeRewrite::rewrite
// @bounds patterns: EVERY constant pattern over the alphabet {a, é (2 bytes), %, _, \} up to 3 bytes (4 in thorough), enumerated concretely inside the harness (259 / 1555 patterns; the pattern is query text); subject: symbolic valid UTF-8 string over the same alphabet, symbolic length <= 3 (4); nested loops of at most 7 iterations, unwind 8
//! C20 / C02: whenever the optimizer's LIKE classifiers accept a constant pattern, the
//! predicate it is rewritten to (=, starts_with, ends_with, contains on the pattern with
//! '%' trimmed) accepts exactly the strings the pattern denotes. The denotation is a
//! reference LIKE matcher written from the definition ('%' any run, '_' one character,
//! '\' escapes the next pattern character; trailing '\' is literal) - the same reading
//! `like_pattern_to_regex` gives the general matcher.
use super::*;

/// Reference matcher as a fixed-size dynamic program (all loop bounds are constants, so the
/// unwinding bound stays small): m[pi][si] <=> p[pi..] matches s[si..].
const MAXN: usize = 4;
fn like_ref(s: &[u8], p: &[u8]) -> bool {
    let (slen, plen) = (s.len(), p.len());
    let mut m = [[false; MAXN + 2]; MAXN + 3];
    let mut pi = MAXN + 1;
    loop {
        let mut si = MAXN + 1;
        loop {
            let v = if si > slen {
                false
            } else if pi >= plen {
                si == slen
            } else {
                let c = p[pi];
                if c == b'%' {
                    m[pi + 1][si] || (si < slen && m[pi][si + 1])
                } else if c == b'\\' && pi + 1 < plen {
                    si < slen && s[si] == p[pi + 1] && m[pi + 2][si + 1]
                } else if c == b'_' {
                    si < slen && m[pi + 1][si + 1]
                } else {
                    si < slen && s[si] == c && m[pi + 1][si + 1]
                }
            };
            m[pi][si] = v;
            if si == 0 {
                break;
            }
            si -= 1;
        }
        if pi == 0 {
            break;
        }
        pi -= 1;
    }
    m[0][0]
}

fn alpha(b: u8) -> bool {
    b == b'a' || b == 0xC3 || b == 0xA9 || b == b'%' || b == b'_' || b == b'\\'
}
/// the only multi-byte character of the alphabet is 'é' = C3 A9: valid UTF-8 means the two
/// bytes only occur together
fn utf8_ok(bs: &[u8]) -> bool {
    let mut i = 0;
    while i < bs.len() {
        if bs[i] == 0xC3 && !(i + 1 < bs.len() && bs[i + 1] == 0xA9) {
            return false;
        }
        if bs[i] == 0xA9 && !(i > 0 && bs[i - 1] == 0xC3) {
            return false;
        }
        i += 1;
    }
    true
}
fn starts_with(s: &[u8], x: &[u8]) -> bool {
    if x.len() > s.len() {
        return false;
    }
    let mut i = 0;
    while i < x.len() {
        if s[i] != x[i] {
            return false;
        }
        i += 1;
    }
    true
}
fn ends_with(s: &[u8], x: &[u8]) -> bool {
    if x.len() > s.len() {
        return false;
    }
    let off = s.len() - x.len();
    let mut i = 0;
    while i < x.len() {
        if s[off + i] != x[i] {
            return false;
        }
        i += 1;
    }
    true
}
fn contains(s: &[u8], x: &[u8]) -> bool {
    if x.len() > s.len() {
        return false;
    }
    let mut off = 0;
    while off + x.len() <= s.len() {
        if starts_with(&s[off..], x) {
            return true;
        }
        off += 1;
    }
    false
}
fn bytes_eq(a: &[u8], b: &[u8]) -> bool {
    a.len() == b.len() && starts_with(a, b)
}

/// Which rewrite `LikeRewrite::rewrite` picks (same order as its if / else-if chain).
#[derive(PartialEq, Eq, Clone, Copy)]
enum Class {
    Eq,
    Prefix,
    Suffix,
    Contains,
    None,
}
fn classify(p: &str) -> Class {
    if can_str_compare(p) {
        Class::Eq
    } else if is_prefix_pattern(p) {
        Class::Prefix
    } else if is_suffix_pattern(p) {
        Class::Suffix
    } else if is_contains_pattern(p) {
        Class::Contains
    } else {
        Class::None
    }
}

const ALPHABET: [u8; 6] = [b'a', 0xC3, 0xA9, b'%', b'_', b'\\'];

macro_rules! like_class {
    ($name:ident, $class:expr, $n:expr, $desc:expr) => {
        #[kani::proof]
        #[kani::unwind(8)]
        fn $name() {
            // subject: symbolic valid UTF-8 string over the alphabet, symbolic length <= $n
            let sb: [u8; $n] = kani::any();
            let slen: usize = kani::any();
            kani::assume(slen <= $n);
            let mut i = 0;
            while i < $n {
                kani::assume(alpha(sb[i]));
                i += 1;
            }
            kani::assume(utf8_ok(&sb[..slen]));
            let s = &sb[..slen];
            // patterns: every constant pattern over the alphabet up to $n bytes, enumerated concretely
            // (a constant LIKE pattern is part of the query text); the classifiers then run on constants
            let mut checked = 0usize;
            let mut plen = 0usize;
            while plen <= $n {
                let mut a0 = 0;
                while a0 < (if plen > 0 { 6 } else { 1 }) {
                    let mut a1 = 0;
                    while a1 < (if plen > 1 { 6 } else { 1 }) {
                        let mut a2 = 0;
                        while a2 < (if plen > 2 { 6 } else { 1 }) {
                            let mut a3 = 0;
                            while a3 < (if plen > 3 { 6 } else { 1 }) {
                                let pb = [ALPHABET[a0], ALPHABET[a1], ALPHABET[a2], ALPHABET[a3]];
                                if utf8_ok(&pb[..plen]) {
                                    let p = unsafe { core::str::from_utf8_unchecked(&pb[..plen]) };
                                    if classify(p) == $class {
                                        let want = like_ref(s, p.as_bytes());
                                        let t = p.trim_matches('%').as_bytes();
                                        let got = match $class {
                                            Class::Eq => bytes_eq(s, p.as_bytes()),
                                            Class::Prefix => starts_with(s, t),
                                            Class::Suffix => ends_with(s, t),
                                            Class::Contains => contains(s, t),
                                            Class::None => want,
                                        };
                                        assert!(got == want, $desc);
                                        checked += 1;
                                    }
                                }
                                a3 += 1;
                            }
                            a2 += 1;
                        }
                        a1 += 1;
                    }
                    a0 += 1;
                }
                plen += 1;
            }
            assert!(checked > 0, "some pattern of this class exists within the bound");
            kani::cover!(slen == $n);
        }
    };
}

/// Fully symbolic variant (pattern bytes and both lengths symbolic): slower, used for the
/// 4-byte thorough tier where enumerating 1555 patterns did not finish in 1800 s.
macro_rules! like_class_sym {
    ($name:ident, $class:expr, $n:expr, $desc:expr) => {
        #[kani::proof]
        #[kani::unwind(8)]
        fn $name() {
            let pb: [u8; $n] = kani::any();
            let sb: [u8; $n] = kani::any();
            let plen: usize = kani::any();
            let slen: usize = kani::any();
            kani::assume(plen <= $n && slen <= $n);
            let mut i = 0;
            while i < $n {
                kani::assume(alpha(pb[i]) && alpha(sb[i]));
                i += 1;
            }
            kani::assume(utf8_ok(&pb[..plen]) && utf8_ok(&sb[..slen]));
            let p = unsafe { core::str::from_utf8_unchecked(&pb[..plen]) };
            let s = &sb[..slen];
            kani::assume(classify(p) == $class);
            kani::cover!(plen == $n);
            let want = like_ref(s, p.as_bytes());
            let t = p.trim_matches('%').as_bytes();
            let got = match $class {
                Class::Eq => bytes_eq(s, p.as_bytes()),
                Class::Prefix => starts_with(s, t),
                Class::Suffix => ends_with(s, t),
                Class::Contains => contains(s, t),
                Class::None => want,
            };
            kani::cover!(want);
            kani::cover!(!want);
            assert!(got == want, $desc);
        }
    };
}

// @h name=c20_like_eq_rewrite props=C20,C02 tier=quick
like_class!(c20_like_eq_rewrite, Class::Eq, 3, "LIKE rewritten to '=' accepts exactly the strings the pattern denotes");
// @h name=c20_like_prefix_rewrite props=C20,C02 tier=quick
like_class!(c20_like_prefix_rewrite, Class::Prefix, 3, "LIKE rewritten to starts_with accepts exactly the strings the pattern denotes");
// @h name=c20_like_suffix_rewrite props=C20,C02 tier=quick
like_class!(c20_like_suffix_rewrite, Class::Suffix, 3, "LIKE rewritten to ends_with accepts exactly the strings the pattern denotes");
// @h name=c20_like_contains_rewrite props=C20,C02 tier=quick
like_class!(c20_like_contains_rewrite, Class::Contains, 3, "LIKE rewritten to contains accepts exactly the strings the pattern denotes");
// @h name=c20_like_eq_rewrite_4 props=C20,C02 tier=thorough
like_class_sym!(c20_like_eq_rewrite_4, Class::Eq, 4, "LIKE rewritten to '=' accepts exactly the strings the pattern denotes");
// @h name=c20_like_prefix_rewrite_4 props=C20,C02 tier=thorough
like_class_sym!(c20_like_prefix_rewrite_4, Class::Prefix, 4, "LIKE rewritten to starts_with accepts exactly the strings the pattern denotes");
// @h name=c20_like_suffix_rewrite_4 props=C20,C02 tier=thorough
like_class_sym!(c20_like_suffix_rewrite_4, Class::Suffix, 4, "LIKE rewritten to ends_with accepts exactly the strings the pattern denotes");
// @h name=c20_like_contains_rewrite_4 props=C20,C02 tier=thorough
like_class_sym!(c20_like_contains_rewrite_4, Class::Contains, 4, "LIKE rewritten to contains accepts exactly the strings the pattern denotes");

/// Pattern bytes symbolic, pattern LENGTH concrete (std's length-dependent fast paths fold),
/// subject fully symbolic: the 4-byte patterns, one harness per class.
macro_rules! like_class_len {
    ($name:ident, $class:expr, $plen:expr, $n:expr, $desc:expr) => {
        #[kani::proof]
        #[kani::unwind(8)]
        fn $name() {
            let pb: [u8; $plen] = kani::any();
            let sb: [u8; $n] = kani::any();
            let slen: usize = kani::any();
            kani::assume(slen <= $n);
            let mut i = 0;
            while i < $plen {
                kani::assume(alpha(pb[i]));
                i += 1;
            }
            let mut j = 0;
            while j < $n {
                kani::assume(alpha(sb[j]));
                j += 1;
            }
            kani::assume(utf8_ok(&pb) && utf8_ok(&sb[..slen]));
            let p = unsafe { core::str::from_utf8_unchecked(&pb) };
            let s = &sb[..slen];
            kani::assume(classify(p) == $class);
            let want = like_ref(s, p.as_bytes());
            let t = p.trim_matches('%').as_bytes();
            let got = match $class {
                Class::Eq => bytes_eq(s, p.as_bytes()),
                Class::Prefix => starts_with(s, t),
                Class::Suffix => ends_with(s, t),
                Class::Contains => contains(s, t),
                Class::None => want,
            };
            kani::cover!(want);
            kani::cover!(!want);
            assert!(got == want, $desc);
        }
    };
}
// @h name=c20_like_prefix_rewrite_len4 props=C20,C02 tier=quick
like_class_len!(c20_like_prefix_rewrite_len4, Class::Prefix, 4, 4, "LIKE rewritten to starts_with accepts exactly the strings the pattern denotes");
// @h name=c20_like_suffix_rewrite_len4 props=C20,C02 tier=thorough
like_class_len!(c20_like_suffix_rewrite_len4, Class::Suffix, 4, 4, "LIKE rewritten to ends_with accepts exactly the strings the pattern denotes");
// @h name=c20_like_contains_rewrite_len4 props=C20,C02 tier=thorough
like_class_len!(c20_like_contains_rewrite_len4, Class::Contains, 4, 4, "LIKE rewritten to contains accepts exactly the strings the pattern denotes");
