// @module crate=glaredb_core parent=src/functions/scalar/builtin/string/pad.rs
// @encodes lpad, rpad
// @bounds subject and pad string: 0..3 characters whose byte widths are concrete per harness (character of each width symbolic); the length argument is enumerated 0..=5 inside the harness; negative lengths in a separate harness; unwind 12
//! C20: string kernels work on characters (not bytes), return valid UTF-8 slices and agree
//! with their char-indexed definition. C15: extreme numeric arguments give a value or an
//! error in bounded time - no panic, no unbounded loop.
use super::*;
use crate::kani_verif_support::*;

/// expected lpad/rpad result: `count` characters; s truncated on the right if longer, else
/// pad repeated (and cut) on the left / right.
fn pad_expected(s: &SymStr, count: i64, pad: &SymStr, left: bool, out: &mut [char; 8]) -> usize {
    let count = if count < 0 { 0 } else { count as usize };
    let mut n = 0;
    if pad.n == 0 {
        // empty pad string: the original string, unpadded (the behaviour the code documents;
        // the user documentation does not define this case)
        let mut i = 0;
        while i < s.n { out[n] = s.chars[i]; n += 1; i += 1; }
        return n;
    }
    if s.n >= count {
        let mut i = 0;
        while i < count { out[n] = s.chars[i]; n += 1; i += 1; }
        return n;
    }
    let fill = count - s.n;
    if pad.n == 0 {
        let mut i = 0;
        while i < s.n { out[n] = s.chars[i]; n += 1; i += 1; }
        return n;
    }
    if !left {
        let mut i = 0;
        while i < s.n { out[n] = s.chars[i]; n += 1; i += 1; }
    }
    let mut k = 0;
    while k < fill { out[n] = pad.chars[k % pad.n]; n += 1; k += 1; }
    if left {
        let mut i = 0;
        while i < s.n { out[n] = s.chars[i]; n += 1; i += 1; }
    }
    n
}
fn same_chars(got: &str, exp: &[char; 8], n: usize) -> bool {
    let mut it = got.chars();
    let mut i = 0;
    while i < n {
        match it.next() { Some(c) if c == exp[i] => {}, _ => return false }
        i += 1;
    }
    it.next().is_none()
}

// @h name=c20_lpad_s21_p1 props=C20 tier=quick
#[kani::proof]
#[kani::unwind(12)]
fn c20_lpad_s21_p1() {
    let s = sym_str_w([2, 1, 1], kani::any(), 2);
    let pad = sym_str_w([1, 1, 1], kani::any(), 1);
    let mut count: i64 = 0;
    while count <= 5 {
        let mut buf = String::new();
        lpad(s.as_str(), count, pad.as_str(), &mut buf);
        let mut exp = ['a'; 8];
        let n = pad_expected(&s, count, &pad, true, &mut exp);
        let good = same_chars(buf.as_str(), &exp, n);
        core::mem::forget(buf);
        assert!(good, "lpad(s, n, pad) has exactly n characters: s cut on the right, or padded with the repeated pad string");
        count += 1;
    }
    kani::cover!(true);
}

// @h name=c20_rpad_s21_p1 props=C20 tier=quick
#[kani::proof]
#[kani::unwind(12)]
fn c20_rpad_s21_p1() {
    let s = sym_str_w([2, 1, 1], kani::any(), 2);
    let pad = sym_str_w([1, 1, 1], kani::any(), 1);
    let mut count: i64 = 0;
    while count <= 5 {
        let mut buf = String::new();
        rpad(s.as_str(), count, pad.as_str(), &mut buf);
        let mut exp = ['a'; 8];
        let n = pad_expected(&s, count, &pad, false, &mut exp);
        let good = same_chars(buf.as_str(), &exp, n);
        core::mem::forget(buf);
        assert!(good, "rpad(s, n, pad) has exactly n characters: s cut on the right, or padded with the repeated pad string");
        count += 1;
    }
    kani::cover!(true);
}

// @h name=c20_lpad_s1_p21 props=C20 tier=quick
#[kani::proof]
#[kani::unwind(12)]
fn c20_lpad_s1_p21() {
    let s = sym_str_w([1, 1, 1], kani::any(), 1);
    let pad = sym_str_w([2, 1, 1], kani::any(), 2);
    let mut count: i64 = 0;
    while count <= 5 {
        let mut buf = String::new();
        lpad(s.as_str(), count, pad.as_str(), &mut buf);
        let mut exp = ['a'; 8];
        let n = pad_expected(&s, count, &pad, true, &mut exp);
        let good = same_chars(buf.as_str(), &exp, n);
        core::mem::forget(buf);
        assert!(good, "lpad(s, n, pad) has exactly n characters: s cut on the right, or padded with the repeated pad string");
        count += 1;
    }
    kani::cover!(true);
}

// @h name=c20_rpad_s1_p21 props=C20 tier=quick
#[kani::proof]
#[kani::unwind(12)]
fn c20_rpad_s1_p21() {
    let s = sym_str_w([1, 1, 1], kani::any(), 1);
    let pad = sym_str_w([2, 1, 1], kani::any(), 2);
    let mut count: i64 = 0;
    while count <= 5 {
        let mut buf = String::new();
        rpad(s.as_str(), count, pad.as_str(), &mut buf);
        let mut exp = ['a'; 8];
        let n = pad_expected(&s, count, &pad, false, &mut exp);
        let good = same_chars(buf.as_str(), &exp, n);
        core::mem::forget(buf);
        assert!(good, "rpad(s, n, pad) has exactly n characters: s cut on the right, or padded with the repeated pad string");
        count += 1;
    }
    kani::cover!(true);
}

// @h name=c20_lpad_s312_p1 props=C20 tier=thorough
#[kani::proof]
#[kani::unwind(12)]
fn c20_lpad_s312_p1() {
    let s = sym_str_w([3, 1, 2], kani::any(), 3);
    let pad = sym_str_w([1, 1, 1], kani::any(), 1);
    let mut count: i64 = 0;
    while count <= 5 {
        let mut buf = String::new();
        lpad(s.as_str(), count, pad.as_str(), &mut buf);
        let mut exp = ['a'; 8];
        let n = pad_expected(&s, count, &pad, true, &mut exp);
        let good = same_chars(buf.as_str(), &exp, n);
        core::mem::forget(buf);
        assert!(good, "lpad(s, n, pad) has exactly n characters: s cut on the right, or padded with the repeated pad string");
        count += 1;
    }
    kani::cover!(true);
}

// @h name=c20_rpad_s312_p1 props=C20 tier=thorough
#[kani::proof]
#[kani::unwind(12)]
fn c20_rpad_s312_p1() {
    let s = sym_str_w([3, 1, 2], kani::any(), 3);
    let pad = sym_str_w([1, 1, 1], kani::any(), 1);
    let mut count: i64 = 0;
    while count <= 5 {
        let mut buf = String::new();
        rpad(s.as_str(), count, pad.as_str(), &mut buf);
        let mut exp = ['a'; 8];
        let n = pad_expected(&s, count, &pad, false, &mut exp);
        let good = same_chars(buf.as_str(), &exp, n);
        core::mem::forget(buf);
        assert!(good, "rpad(s, n, pad) has exactly n characters: s cut on the right, or padded with the repeated pad string");
        count += 1;
    }
    kani::cover!(true);
}

// @h name=c20_lpad_s0_p21 props=C20 tier=thorough
#[kani::proof]
#[kani::unwind(12)]
fn c20_lpad_s0_p21() {
    let s = sym_str_w([1, 1, 1], kani::any(), 0);
    let pad = sym_str_w([2, 1, 1], kani::any(), 2);
    let mut count: i64 = 0;
    while count <= 5 {
        let mut buf = String::new();
        lpad(s.as_str(), count, pad.as_str(), &mut buf);
        let mut exp = ['a'; 8];
        let n = pad_expected(&s, count, &pad, true, &mut exp);
        let good = same_chars(buf.as_str(), &exp, n);
        core::mem::forget(buf);
        assert!(good, "lpad(s, n, pad) has exactly n characters: s cut on the right, or padded with the repeated pad string");
        count += 1;
    }
    kani::cover!(true);
}

// @h name=c20_rpad_s0_p21 props=C20 tier=thorough
#[kani::proof]
#[kani::unwind(12)]
fn c20_rpad_s0_p21() {
    let s = sym_str_w([1, 1, 1], kani::any(), 0);
    let pad = sym_str_w([2, 1, 1], kani::any(), 2);
    let mut count: i64 = 0;
    while count <= 5 {
        let mut buf = String::new();
        rpad(s.as_str(), count, pad.as_str(), &mut buf);
        let mut exp = ['a'; 8];
        let n = pad_expected(&s, count, &pad, false, &mut exp);
        let good = same_chars(buf.as_str(), &exp, n);
        core::mem::forget(buf);
        assert!(good, "rpad(s, n, pad) has exactly n characters: s cut on the right, or padded with the repeated pad string");
        count += 1;
    }
    kani::cover!(true);
}

// @h name=c20_lpad_s21_p0 props=C20 tier=thorough
#[kani::proof]
#[kani::unwind(12)]
fn c20_lpad_s21_p0() {
    let s = sym_str_w([2, 1, 1], kani::any(), 2);
    let pad = sym_str_w([1, 1, 1], kani::any(), 0);
    let mut count: i64 = 0;
    while count <= 5 {
        let mut buf = String::new();
        lpad(s.as_str(), count, pad.as_str(), &mut buf);
        let mut exp = ['a'; 8];
        let n = pad_expected(&s, count, &pad, true, &mut exp);
        let good = same_chars(buf.as_str(), &exp, n);
        core::mem::forget(buf);
        assert!(good, "lpad(s, n, pad) has exactly n characters: s cut on the right, or padded with the repeated pad string");
        count += 1;
    }
    kani::cover!(true);
}

// @h name=c20_rpad_s21_p0 props=C20 tier=thorough
#[kani::proof]
#[kani::unwind(12)]
fn c20_rpad_s21_p0() {
    let s = sym_str_w([2, 1, 1], kani::any(), 2);
    let pad = sym_str_w([1, 1, 1], kani::any(), 0);
    let mut count: i64 = 0;
    while count <= 5 {
        let mut buf = String::new();
        rpad(s.as_str(), count, pad.as_str(), &mut buf);
        let mut exp = ['a'; 8];
        let n = pad_expected(&s, count, &pad, false, &mut exp);
        let good = same_chars(buf.as_str(), &exp, n);
        core::mem::forget(buf);
        assert!(good, "rpad(s, n, pad) has exactly n characters: s cut on the right, or padded with the repeated pad string");
        count += 1;
    }
    kani::cover!(true);
}

// @h name=c20_lpad_s11_p3 props=C20 tier=thorough
#[kani::proof]
#[kani::unwind(12)]
fn c20_lpad_s11_p3() {
    let s = sym_str_w([1, 1, 1], kani::any(), 2);
    let pad = sym_str_w([3, 1, 1], kani::any(), 1);
    let mut count: i64 = 0;
    while count <= 5 {
        let mut buf = String::new();
        lpad(s.as_str(), count, pad.as_str(), &mut buf);
        let mut exp = ['a'; 8];
        let n = pad_expected(&s, count, &pad, true, &mut exp);
        let good = same_chars(buf.as_str(), &exp, n);
        core::mem::forget(buf);
        assert!(good, "lpad(s, n, pad) has exactly n characters: s cut on the right, or padded with the repeated pad string");
        count += 1;
    }
    kani::cover!(true);
}

// @h name=c20_rpad_s11_p3 props=C20 tier=thorough
#[kani::proof]
#[kani::unwind(12)]
fn c20_rpad_s11_p3() {
    let s = sym_str_w([1, 1, 1], kani::any(), 2);
    let pad = sym_str_w([3, 1, 1], kani::any(), 1);
    let mut count: i64 = 0;
    while count <= 5 {
        let mut buf = String::new();
        rpad(s.as_str(), count, pad.as_str(), &mut buf);
        let mut exp = ['a'; 8];
        let n = pad_expected(&s, count, &pad, false, &mut exp);
        let good = same_chars(buf.as_str(), &exp, n);
        core::mem::forget(buf);
        assert!(good, "rpad(s, n, pad) has exactly n characters: s cut on the right, or padded with the repeated pad string");
        count += 1;
    }
    kani::cover!(true);
}

// @h name=c20_lpad_negative props=C20,C15 tier=quick
#[kani::proof]
#[kani::unwind(12)]
fn c20_lpad_negative() {
    let s = sym_str_w([1, 2, 1], kani::any(), 2);
    let pad = sym_str_w([1, 1, 1], kani::any(), 1);
    let which: u8 = kani::any();
    let count: i64 = match which & 3 { 0 => -1, 1 => -5, 2 => i64::MIN, _ => -2 };
    kani::cover!(count == -5);
    let mut buf = String::new();
    lpad(s.as_str(), count, pad.as_str(), &mut buf);
    let empty = buf.is_empty();
    core::mem::forget(buf);
    assert!(empty, "lpad with a negative length is the empty string (PostgreSQL), never a panic");
}
