// @module crate=glaredb_core parent=src/functions/scalar/builtin/string/right.rs
// @encodes right
// @bounds subject: 2 or 3 characters; the byte width of each character (1..=3) and the count argument (-4..=4) are enumerated concretely inside the harness, the character of each width is symbolic (a symbolic string length makes symex enter std's word-at-a-time paths: no verdict in 420 s); extremes in separate harnesses; unwind 12
//! C20: string kernels work on characters (not bytes), return valid UTF-8 slices and agree
//! with their char-indexed definition. C15: extreme numeric arguments give a value or an
//! error in bounded time - no panic, no unbounded loop.
use super::*;
use crate::kani_verif_support::*;

// @h name=c20_right_w11 props=C20 tier=thorough
#[kani::proof]
#[kani::unwind(12)]
fn c20_right_w11() {
    let s = sym_str_w([1, 1, 1], kani::any(), 2);
    let mut count: i64 = -3;
    while count <= 3 {
        let got = right(s.as_str(), count);
        let start = if count >= 0 { (2 as usize).saturating_sub(count as usize) } else { ((-count) as usize).min(2) };
        assert!(s.is_char_range(got.as_bytes(), start, 2), "right(s, n): last n characters; negative n drops the first |n|");
        count += 1;
    }
    kani::cover!(true);
}

// @h name=c20_right_w12 props=C20 tier=thorough
#[kani::proof]
#[kani::unwind(12)]
fn c20_right_w12() {
    let s = sym_str_w([1, 2, 1], kani::any(), 2);
    let mut count: i64 = -3;
    while count <= 3 {
        let got = right(s.as_str(), count);
        let start = if count >= 0 { (2 as usize).saturating_sub(count as usize) } else { ((-count) as usize).min(2) };
        assert!(s.is_char_range(got.as_bytes(), start, 2), "right(s, n): last n characters; negative n drops the first |n|");
        count += 1;
    }
    kani::cover!(true);
}

// @h name=c20_right_w13 props=C20 tier=quick
#[kani::proof]
#[kani::unwind(12)]
fn c20_right_w13() {
    let s = sym_str_w([1, 3, 1], kani::any(), 2);
    let mut count: i64 = -3;
    while count <= 3 {
        let got = right(s.as_str(), count);
        let start = if count >= 0 { (2 as usize).saturating_sub(count as usize) } else { ((-count) as usize).min(2) };
        assert!(s.is_char_range(got.as_bytes(), start, 2), "right(s, n): last n characters; negative n drops the first |n|");
        count += 1;
    }
    kani::cover!(true);
}

// @h name=c20_right_w21 props=C20 tier=quick
#[kani::proof]
#[kani::unwind(12)]
fn c20_right_w21() {
    let s = sym_str_w([2, 1, 1], kani::any(), 2);
    let mut count: i64 = -3;
    while count <= 3 {
        let got = right(s.as_str(), count);
        let start = if count >= 0 { (2 as usize).saturating_sub(count as usize) } else { ((-count) as usize).min(2) };
        assert!(s.is_char_range(got.as_bytes(), start, 2), "right(s, n): last n characters; negative n drops the first |n|");
        count += 1;
    }
    kani::cover!(true);
}

// @h name=c20_right_w22 props=C20 tier=thorough
#[kani::proof]
#[kani::unwind(12)]
fn c20_right_w22() {
    let s = sym_str_w([2, 2, 1], kani::any(), 2);
    let mut count: i64 = -3;
    while count <= 3 {
        let got = right(s.as_str(), count);
        let start = if count >= 0 { (2 as usize).saturating_sub(count as usize) } else { ((-count) as usize).min(2) };
        assert!(s.is_char_range(got.as_bytes(), start, 2), "right(s, n): last n characters; negative n drops the first |n|");
        count += 1;
    }
    kani::cover!(true);
}

// @h name=c20_right_w23 props=C20 tier=thorough
#[kani::proof]
#[kani::unwind(12)]
fn c20_right_w23() {
    let s = sym_str_w([2, 3, 1], kani::any(), 2);
    let mut count: i64 = -3;
    while count <= 3 {
        let got = right(s.as_str(), count);
        let start = if count >= 0 { (2 as usize).saturating_sub(count as usize) } else { ((-count) as usize).min(2) };
        assert!(s.is_char_range(got.as_bytes(), start, 2), "right(s, n): last n characters; negative n drops the first |n|");
        count += 1;
    }
    kani::cover!(true);
}

// @h name=c20_right_w31 props=C20 tier=thorough
#[kani::proof]
#[kani::unwind(12)]
fn c20_right_w31() {
    let s = sym_str_w([3, 1, 1], kani::any(), 2);
    let mut count: i64 = -3;
    while count <= 3 {
        let got = right(s.as_str(), count);
        let start = if count >= 0 { (2 as usize).saturating_sub(count as usize) } else { ((-count) as usize).min(2) };
        assert!(s.is_char_range(got.as_bytes(), start, 2), "right(s, n): last n characters; negative n drops the first |n|");
        count += 1;
    }
    kani::cover!(true);
}

// @h name=c20_right_w32 props=C20 tier=thorough
#[kani::proof]
#[kani::unwind(12)]
fn c20_right_w32() {
    let s = sym_str_w([3, 2, 1], kani::any(), 2);
    let mut count: i64 = -3;
    while count <= 3 {
        let got = right(s.as_str(), count);
        let start = if count >= 0 { (2 as usize).saturating_sub(count as usize) } else { ((-count) as usize).min(2) };
        assert!(s.is_char_range(got.as_bytes(), start, 2), "right(s, n): last n characters; negative n drops the first |n|");
        count += 1;
    }
    kani::cover!(true);
}

// @h name=c20_right_w33 props=C20 tier=thorough
#[kani::proof]
#[kani::unwind(12)]
fn c20_right_w33() {
    let s = sym_str_w([3, 3, 1], kani::any(), 2);
    let mut count: i64 = -3;
    while count <= 3 {
        let got = right(s.as_str(), count);
        let start = if count >= 0 { (2 as usize).saturating_sub(count as usize) } else { ((-count) as usize).min(2) };
        assert!(s.is_char_range(got.as_bytes(), start, 2), "right(s, n): last n characters; negative n drops the first |n|");
        count += 1;
    }
    kani::cover!(true);
}

// @h name=c20_right_w213 props=C20 tier=thorough
#[kani::proof]
#[kani::unwind(12)]
fn c20_right_w213() {
    let s = sym_str_w([2, 1, 3], kani::any(), 3);
    let mut count: i64 = -3;
    while count <= 3 {
        let got = right(s.as_str(), count);
        let start = if count >= 0 { (3 as usize).saturating_sub(count as usize) } else { ((-count) as usize).min(3) };
        assert!(s.is_char_range(got.as_bytes(), start, 3), "right(s, n): last n characters; negative n drops the first |n|");
        count += 1;
    }
    kani::cover!(true);
}

// @h name=c20_right_w321 props=C20 tier=thorough
#[kani::proof]
#[kani::unwind(12)]
fn c20_right_w321() {
    let s = sym_str_w([3, 2, 1], kani::any(), 3);
    let mut count: i64 = -3;
    while count <= 3 {
        let got = right(s.as_str(), count);
        let start = if count >= 0 { (3 as usize).saturating_sub(count as usize) } else { ((-count) as usize).min(3) };
        assert!(s.is_char_range(got.as_bytes(), start, 3), "right(s, n): last n characters; negative n drops the first |n|");
        count += 1;
    }
    kani::cover!(true);
}

// @h name=c20_right_w112 props=C20 tier=thorough
#[kani::proof]
#[kani::unwind(12)]
fn c20_right_w112() {
    let s = sym_str_w([1, 1, 2], kani::any(), 3);
    let mut count: i64 = -3;
    while count <= 3 {
        let got = right(s.as_str(), count);
        let start = if count >= 0 { (3 as usize).saturating_sub(count as usize) } else { ((-count) as usize).min(3) };
        assert!(s.is_char_range(got.as_bytes(), start, 3), "right(s, n): last n characters; negative n drops the first |n|");
        count += 1;
    }
    kani::cover!(true);
}

// @h name=c20_right_w222 props=C20 tier=thorough
#[kani::proof]
#[kani::unwind(12)]
fn c20_right_w222() {
    let s = sym_str_w([2, 2, 2], kani::any(), 3);
    let mut count: i64 = -3;
    while count <= 3 {
        let got = right(s.as_str(), count);
        let start = if count >= 0 { (3 as usize).saturating_sub(count as usize) } else { ((-count) as usize).min(3) };
        assert!(s.is_char_range(got.as_bytes(), start, 3), "right(s, n): last n characters; negative n drops the first |n|");
        count += 1;
    }
    kani::cover!(true);
}

// @h name=c20_right_extreme_count props=C20,C15 tier=quick
#[kani::proof]
#[kani::unwind(12)]
fn c20_right_extreme_count() {
    let s = sym_str_w([2, 1, 1], kani::any(), 2);
    let which: u8 = kani::any();
    let count: i64 = match which & 3 { 0 => i64::MIN, 1 => i64::MIN + 1, 2 => i64::MAX, _ => 1 << 40 };
    kani::cover!(count == i64::MIN);
    let got = right(s.as_str(), count);
    let empty = count < 0;
    assert!(if empty { got.is_empty() } else { got.len() == s.len }, "right with a huge |n|: whole string / empty string, never a panic");
}


