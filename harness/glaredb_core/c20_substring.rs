// @module crate=glaredb_core parent=src/functions/scalar/builtin/string/substring.rs
// @encodes substring_from, substring_from_count
// @bounds subject: up to 3 characters from {a, b, é (2 bytes), € (3 bytes)} (character count concrete per harness, character choice symbolic); numeric arguments symbolic in [-5, 5] unless stated; unwind 12
//! C20: string kernels work on characters (not bytes), return valid UTF-8 slices and agree
//! with their char-indexed definition. C15: extreme numeric arguments give a value or an
//! error in bounded time - no panic, no unbounded loop.
use super::*;
use crate::kani_verif_support::*;

// @h name=c20_substring_from_n0 props=C20 tier=thorough
#[kani::proof]
#[kani::unwind(12)]
fn c20_substring_from_n0() {
    let s = sym_str(kani::any(), 0);
    let from: i64 = kani::any();
    kani::assume(from >= 1 && from <= 6);
    let got = substring_from(s.as_str(), from);
    kani::cover!(from == 2);
    assert!(s.is_char_range(got.as_bytes(), (from - 1) as usize, 0), "substring(s, from): characters from position `from` (1-based)");
}

// @h name=c20_substring_from_count_n0 props=C20 tier=thorough
#[kani::proof]
#[kani::unwind(12)]
fn c20_substring_from_count_n0() {
    let s = sym_str(kani::any(), 0);
    let from: i64 = kani::any();
    let count: i64 = kani::any();
    kani::assume(from >= 1 && from <= 5 && count >= 0 && count <= 5);
    let got = substring_from_count(s.as_str(), from, count);
    kani::cover!(from == 2 && count == 1);
    assert!(s.is_char_range(got.as_bytes(), (from - 1) as usize, (from - 1 + count) as usize),
        "substring(s, from, count): `count` characters from position `from`");
}

// @h name=c20_substring_from_n2 props=C20 tier=thorough
#[kani::proof]
#[kani::unwind(12)]
fn c20_substring_from_n2() {
    let s = sym_str(kani::any(), 2);
    let from: i64 = kani::any();
    kani::assume(from >= 1 && from <= 6);
    let got = substring_from(s.as_str(), from);
    kani::cover!(from == 2);
    assert!(s.is_char_range(got.as_bytes(), (from - 1) as usize, 2), "substring(s, from): characters from position `from` (1-based)");
}

// @h name=c20_substring_from_count_n2 props=C20 tier=thorough
#[kani::proof]
#[kani::unwind(12)]
fn c20_substring_from_count_n2() {
    let s = sym_str(kani::any(), 2);
    let from: i64 = kani::any();
    let count: i64 = kani::any();
    kani::assume(from >= 1 && from <= 5 && count >= 0 && count <= 5);
    let got = substring_from_count(s.as_str(), from, count);
    kani::cover!(from == 2 && count == 1);
    assert!(s.is_char_range(got.as_bytes(), (from - 1) as usize, (from - 1 + count) as usize),
        "substring(s, from, count): `count` characters from position `from`");
}

// @h name=c20_substring_from_n3 props=C20 tier=quick
#[kani::proof]
#[kani::unwind(12)]
fn c20_substring_from_n3() {
    let s = sym_str(kani::any(), 3);
    let from: i64 = kani::any();
    kani::assume(from >= 1 && from <= 6);
    let got = substring_from(s.as_str(), from);
    kani::cover!(from == 2);
    assert!(s.is_char_range(got.as_bytes(), (from - 1) as usize, 3), "substring(s, from): characters from position `from` (1-based)");
}

// @h name=c20_substring_from_count_n3 props=C20 tier=quick
#[kani::proof]
#[kani::unwind(12)]
fn c20_substring_from_count_n3() {
    let s = sym_str(kani::any(), 3);
    let from: i64 = kani::any();
    let count: i64 = kani::any();
    kani::assume(from >= 1 && from <= 5 && count >= 0 && count <= 5);
    let got = substring_from_count(s.as_str(), from, count);
    kani::cover!(from == 2 && count == 1);
    assert!(s.is_char_range(got.as_bytes(), (from - 1) as usize, (from - 1 + count) as usize),
        "substring(s, from, count): `count` characters from position `from`");
}

// @h name=c20_substring_from_nonpositive props=C20,C15 tier=quick
/// Positions before the start of the string (0, negative): PostgreSQL semantics, which
/// the documentation refers to - the string from its first character; in any case a result in
/// bounded time (the loop bound is the unwinding assertion).
#[kani::proof]
#[kani::unwind(12)]
fn c20_substring_from_nonpositive() {
    let s = sym_str(kani::any(), 2);
    let from: i64 = kani::any();
    kani::assume(from <= 0);
    kani::cover!(from == 0);
    kani::cover!(from == i64::MIN);
    let got = substring_from(s.as_str(), from);
    assert!(s.is_char_range(got.as_bytes(), 0, 2), "substring(s, from <= 0) is the whole string");
}

// @h name=c20_substring_from_count_nonpositive props=C20,C15 tier=quick
/// from <= 0 with a count: the positions before the string count towards `count`
/// (substring('hello', 0, 2) = 'h'); negative counts select nothing; extremes do not overflow.
#[kani::proof]
#[kani::unwind(12)]
fn c20_substring_from_count_nonpositive() {
    let s = sym_str(kani::any(), 2);
    let which: u8 = kani::any();
    let (from, count): (i64, i64) = match which & 7 {
        0 => (0, 2),
        1 => (-1, 3),
        2 => (0, 0),
        3 => (i64::MIN, i64::MAX),
        4 => (1, -1),
        5 => (i64::MAX, i64::MAX),
        6 => (-2, 2),
        _ => (0, 5),
    };
    let got = substring_from_count(s.as_str(), from, count);
    let end = (from as i128 + count as i128 - 1).clamp(0, 2) as usize; // chars [0, end)
    let start = (from as i128 - 1).clamp(0, 2) as usize;
    kani::cover!(which & 7 == 3);
    assert!(s.is_char_range(got.as_bytes(), start, if end > start { end } else { start }),
        "substring(s, from, count) selects the characters at positions from .. from+count-1 that exist");
}

// @h name=c20_substring_from_huge props=C20,C15 tier=quick
/// A start far beyond the end: empty string after at most len(s) steps, not `from` steps.
#[kani::proof]
#[kani::unwind(12)]
fn c20_substring_from_huge() {
    let s = sym_str(kani::any(), 2);
    let from: i64 = kani::any();
    kani::assume(from > 6);
    kani::cover!(from == i64::MAX);
    let got = substring_from(s.as_str(), from);
    assert!(got.is_empty(), "substring starting beyond the end is empty");
}


