// @module crate=glaredb_core parent=src/lib.rs
//! Shared stubs and helpers for every glaredb_core harness (see DESIGN.md §2.2).
#![allow(dead_code, unused_imports)]

/// Stub for `alloc::fmt::format`: error *messages* are not part of any claim.
pub fn stub_format(_args: core::fmt::Arguments<'_>) -> String {
    String::new()
}

/// Stub for `Backtrace::capture`: DbError captures one on construction.
pub fn stub_backtrace() -> std::backtrace::Backtrace {
    std::backtrace::Backtrace::disabled()
}

/// parking_lot slow paths: unreachable in a sequential harness; panic if reached.
pub fn stub_lock_slow(_m: &parking_lot::RawMutex, _t: Option<std::time::Instant>) -> bool {
    panic!("contended lock in sequential harness")
}
pub fn stub_unlock_slow(_m: &parking_lot::RawMutex, _f: bool) {
    panic!("contended unlock in sequential harness")
}

/// Unwrap a Result without touching `Debug for DbError` (which drags in fmt + backtrace).
pub fn ok<T>(r: glaredb_error::Result<T>) -> T {
    match r {
        Ok(v) => v,
        Err(e) => {
            core::mem::forget(e);
            panic!("unexpected Err")
        }
    }
}

/// `Result::is_ok` that forgets the payload (no drop glue in the formula).
pub fn is_ok_forget<T>(r: glaredb_error::Result<T>) -> bool {
    let good = r.is_ok();
    core::mem::forget(r);
    good
}

/// Lexicographic byte comparison (what memcmp on sort keys does), loop-bounded by the slice length.
pub fn memcmp(a: &[u8], b: &[u8]) -> core::cmp::Ordering {
    let mut i = 0;
    while i < a.len() && i < b.len() {
        if a[i] != b[i] {
            return a[i].cmp(&b[i]);
        }
        i += 1;
    }
    a.len().cmp(&b.len())
}

/// One-row array holding `v`, NULL when `null`.
///
/// Built without the Option iterator adapter, and a NULL row is represented by
/// the `AllInvalid` validity variant (the representation `Array::new_null` and
/// constant NULL arrays use) rather than by a one-byte bitmap: with a heap
/// bitmap on an *input* of the binary executor CBMC's propositional reduction
/// produced 77 M clauses / >14 GB (measured); this form takes about a minute.
pub fn arr1<T>(v: T, null: bool) -> crate::arrays::array::Array
where
    crate::arrays::array::Array:
        crate::util::iter::TryFromExactSizeIterator<T, Error = glaredb_error::DbError>,
{
    use crate::util::iter::TryFromExactSizeIterator;
    let mut arr = ok(crate::arrays::array::Array::try_from_iter([v]));
    if null {
        arr.validity = crate::arrays::array::validity::Validity::new_all_invalid(1);
    }
    arr
}

/// Same, but the NULL row is marked in a bitmap (`Validity::set_invalid`).
pub fn arr1_mask<T>(v: T, null: bool) -> crate::arrays::array::Array
where
    crate::arrays::array::Array:
        crate::util::iter::TryFromExactSizeIterator<T, Error = glaredb_error::DbError>,
{
    use crate::util::iter::TryFromExactSizeIterator;
    let mut arr = ok(crate::arrays::array::Array::try_from_iter([v]));
    if null {
        arr.validity.set_invalid(0);
    }
    arr
}

/// Small symbolic strings for the string-kernel harnesses: up to 3 characters, each chosen
/// from {'a' (1 byte), 'b' (1 byte), 'é' (2 bytes), '€' (3 bytes)}.
pub struct SymStr {
    pub chars: [char; 3],
    pub n: usize,
    pub bytes: [u8; 9],
    pub len: usize,
}
pub fn pick_char(sel: u8) -> char {
    match sel & 3 {
        0 => 'a',
        1 => 'b',
        2 => 'é',
        _ => '€',
    }
}
/// Build from concrete-or-symbolic selectors; `n` should be concrete for cheap symex.
pub fn sym_str(sel: [u8; 3], n: usize) -> SymStr {
    let mut s = SymStr { chars: ['a'; 3], n, bytes: [0; 9], len: 0 };
    let mut i = 0;
    while i < 3 {
        if i < n {
            let c = pick_char(sel[i]);
            s.chars[i] = c;
            let mut tmp = [0u8; 4];
            let enc = c.encode_utf8(&mut tmp).len();
            let mut j = 0;
            while j < enc {
                s.bytes[s.len + j] = tmp[j];
                j += 1;
            }
            s.len += enc;
        }
        i += 1;
    }
    s
}
impl SymStr {
    pub fn as_str(&self) -> &str {
        unsafe { core::str::from_utf8_unchecked(&self.bytes[..self.len]) }
    }
    /// true iff `got` is exactly the characters [from, to) of this string
    pub fn is_char_range(&self, got: &[u8], from: usize, to: usize) -> bool {
        let mut exp = [0u8; 9];
        let mut elen = 0;
        let mut i = 0;
        while i < 3 {
            if i >= from && i < to && i < self.n {
                let mut tmp = [0u8; 4];
                let enc = self.chars[i].encode_utf8(&mut tmp).len();
                let mut j = 0;
                while j < enc {
                    exp[elen + j] = tmp[j];
                    j += 1;
                }
                elen += enc;
            }
            i += 1;
        }
        if got.len() != elen {
            return false;
        }
        let mut k = 0;
        while k < elen {
            if got[k] != exp[k] {
                return false;
            }
            k += 1;
        }
        true
    }
}

/// Like `sym_str`, but the byte WIDTH of every character is concrete (so the string length is
/// a constant and std's length-dependent fast paths fold away) and only the character of
/// that width is symbolic: width 1: 'a'/'b', width 2: 'é'/'ñ', width 3: '€'/'✓', width 4: '😀'/'🙂'.
pub fn sym_str_w(widths: [usize; 3], var: [bool; 3], n: usize) -> SymStr {
    let mut s = SymStr { chars: ['a'; 3], n, bytes: [0; 9], len: 0 };
    let mut i = 0;
    while i < 3 {
        if i < n {
            let w = widths[i]; // concrete
            let c = if w == 1 {
                if var[i] { 'b' } else { 'a' }
            } else if w == 2 {
                if var[i] { 'ñ' } else { 'é' }
            } else {
                if var[i] { '✓' } else { '€' }
            };
            s.chars[i] = c;
            let mut tmp = [0u8; 4];
            let _ = c.encode_utf8(&mut tmp);
            let mut j = 0;
            while j < w {
                s.bytes[s.len + j] = tmp[j];
                j += 1;
            }
            s.len += w; // stays a constant for symex
        }
        i += 1;
    }
    s
}
