// @module crate=glaredb_core parent=src/lib.rs
//! Shared stubs and helpers for every glaredb_core harness (see DESIGN.md §2.2).
#![allow(dead_code, unused_imports)]

/// Stub for `alloc::fmt::format`: error *messages* are not part of any claim.
pub fn stub_format(_args: core::fmt::Arguments<'_>) -> String {
    String::new()
}

/// Stub for `Backtrace::capture`: DbError captures one on construction.
pub fn stub_backtrace() -> std::backtrace::Backtrace {
    std::backtrace::Backtrace::disabled()
}

/// parking_lot slow paths: unreachable in a sequential harness; panic if reached.
pub fn stub_lock_slow(_m: &parking_lot::RawMutex, _t: Option<std::time::Instant>) -> bool {
    panic!("contended lock in sequential harness")
}
pub fn stub_unlock_slow(_m: &parking_lot::RawMutex, _f: bool) {
    panic!("contended unlock in sequential harness")
}

/// Unwrap a Result without touching `Debug for DbError` (which drags in fmt + backtrace).
pub fn ok<T>(r: glaredb_error::Result<T>) -> T {
    match r {
        Ok(v) => v,
        Err(e) => {
            core::mem::forget(e);
            panic!("unexpected Err")
        }
    }
}

/// `Result::is_ok` that forgets the payload (no drop glue in the formula).
pub fn is_ok_forget<T>(r: glaredb_error::Result<T>) -> bool {
    let good = r.is_ok();
    core::mem::forget(r);
    good
}

/// Lexicographic byte comparison (what memcmp on sort keys does), loop-bounded by the slice length.
pub fn memcmp(a: &[u8], b: &[u8]) -> core::cmp::Ordering {
    let mut i = 0;
    while i < a.len() && i < b.len() {
        if a[i] != b[i] {
            return a[i].cmp(&b[i]);
        }
        i += 1;
    }
    a.len().cmp(&b.len())
}

/// One-row array holding `v`, NULL when `null`.
///
/// Built without the Option iterator adapter, and a NULL row is represented by
/// the `AllInvalid` validity variant (the representation `Array::new_null` and
/// constant NULL arrays use) rather than by a one-byte bitmap: with a heap
/// bitmap on an *input* of the binary executor CBMC's propositional reduction
/// produced 77 M clauses / >14 GB (measured); this form takes about a minute.
pub fn arr1<T>(v: T, null: bool) -> crate::arrays::array::Array
where
    crate::arrays::array::Array:
        crate::util::iter::TryFromExactSizeIterator<T, Error = glaredb_error::DbError>,
{
    use crate::util::iter::TryFromExactSizeIterator;
    let mut arr = ok(crate::arrays::array::Array::try_from_iter([v]));
    if null {
        arr.validity = crate::arrays::array::validity::Validity::new_all_invalid(1);
    }
    arr
}

/// Same, but the NULL row is marked in a bitmap (`Validity::set_invalid`).
pub fn arr1_mask<T>(v: T, null: bool) -> crate::arrays::array::Array
where
    crate::arrays::array::Array:
        crate::util::iter::TryFromExactSizeIterator<T, Error = glaredb_error::DbError>,
{
    use crate::util::iter::TryFromExactSizeIterator;
    let mut arr = ok(crate::arrays::array::Array::try_from_iter([v]));
    if null {
        arr.validity.set_invalid(0);
    }
    arr
}
