// @module crate=glaredb_core parent=src/functions/cast/behavior.rs
// @encodes CastErrorState::set_error, CastErrorState::into_result, CastFailBehavior::new_state
//! Stub for `CastErrorState::set_error` (needs the private fields) and the leaf
//! harness that ties the stub to the real implementation.
use super::*;

/// Set by `stub_set_error_flag`.
pub static mut ERROR_REPORTED: bool = false;

/// Stub used by the array-level cast harnesses: records that the cast kernel
/// reported a failure in `Error` mode, without constructing the `DbError`.
///
/// Why: `CastFunction::cast` keeps a `CastErrorState` alive across a `?`; on
/// that early-return path its `Option<DbError>` is dropped, and the drop glue
/// of a possibly-`Some` `DbError` (`Box<dyn Error>`, `Box<dyn ErrorFieldValue>`
/// destructors through vtable pointers) makes CBMC expand every
/// signature-compatible function (all of core::fmt): no verdict in 420 s,
/// against 13 s with the error never materialised. The real `set_error` /
/// `into_result` pair is checked by `c13_cast_error_state` below; `cast` ends
/// in `error_state.into_result()`, so "flag set" is equivalent to "cast
/// returns Err" given that harness.
pub fn stub_set_error_flag<F>(this: &mut CastErrorState, _error_fn: F)
where
    F: FnOnce() -> DbError,
{
    if this.behavior == CastFailBehavior::Error {
        unsafe { ERROR_REPORTED = true }
    }
    // the closure may own an already-built DbError (`set_error(|| err)`): leak it, never drop it
    core::mem::forget(_error_fn);
}

pub fn error_reported() -> bool {
    unsafe { ERROR_REPORTED }
}

fn stub_format(_args: core::fmt::Arguments<'_>) -> String {
    String::new()
}
fn stub_backtrace() -> std::backtrace::Backtrace {
    std::backtrace::Backtrace::disabled()
}

/// Real `set_error` + `into_result`: Error mode turns the first reported failure into
/// `Err`, Null mode never does, and no report means `Ok`.
// @h name=c13_cast_error_state props=C13 tier=quick
#[kani::proof]
#[kani::unwind(3)]
#[kani::stub(alloc::fmt::format, stub_format)]
#[kani::stub(std::backtrace::Backtrace::capture, stub_backtrace)]
fn c13_cast_error_state() {
    let null_mode: bool = kani::any();
    let report: bool = kani::any();
    let behavior = if null_mode { CastFailBehavior::Null } else { CastFailBehavior::Error };
    let mut st = behavior.new_state();
    if report {
        st.set_error(|| DbError::new("x"));
    }
    let r = st.into_result();
    let is_err = r.is_err();
    core::mem::forget(r);
    kani::cover!(is_err);
    kani::cover!(!is_err);
    assert!(is_err == (report && !null_mode), "Err exactly when a failure was reported in Error mode");
}
