// @module crate=glaredb_ext_parquet parent=src/column/bitutil.rs
// @encodes bit_unpack::<u8>, bit_unpack::<u16>, read_unsigned_vlq, zigzag_decode, zigzag_encode, BitPackEncodeable::from_u64, ReadCursor::{from_slice,peek_next_unchecked,read_next_unchecked}
// @bounds bit_unpack: 4 symbolic bytes, 3 values, symbolic bit width 1..=8 (u16: width 9..=10 over 4 bytes, 3 values), symbolic split point; vlq: <= 5 symbolic bytes; unwind 12
//! C10: the leaf decoders of the Parquet reader agree with the format definition
//! (LSB-first bit packing, ULEB128, zigzag) and reading n values in one call equals reading
//! k then n-k (resume across output batches), including the carried bit position.
//! C19: on arbitrary (truncated / oversized-width) input they return Ok/Err - no panic,
//! no out-of-bounds read.
use super::*;
use crate::kani_verif_support::*;

/// value `idx` of a bit-packed run occupies bits [idx*bw, (idx+1)*bw), LSB first
fn ref_unpack(bytes: &[u8], bw: u8, idx: usize) -> u64 {
    let mut v = 0u64;
    let mut i = 0u8;
    while i < bw {
        let bit = idx * (bw as usize) + i as usize;
        let b = (bytes[bit / 8] >> (bit % 8)) & 1;
        v |= (b as u64) << i;
        i += 1;
    }
    v
}

// @h name=c10_bit_unpack_u8_resume props=C10 tier=quick
#[kani::proof]
#[kani::unwind(12)]
#[kani::stub(alloc::fmt::format, crate::kani_verif_support::stub_format)]
#[kani::stub(std::backtrace::Backtrace::capture, crate::kani_verif_support::stub_backtrace)]
fn c10_bit_unpack_u8_resume() {
    let bytes: [u8; 4] = kani::any();
    let bw: u8 = kani::any();
    kani::assume(bw >= 1 && bw <= 8);
    let k: usize = kani::any();
    kani::assume(k <= 3);

    let mut whole = [0u8; 3];
    let mut st = BitUnpackState::new(bw);
    let mut c = ReadCursor::from_slice(&bytes);
    assert!(is_ok_forget(bit_unpack(&mut st, &mut c, &mut whole)), "enough bytes: decodes");

    let mut parts = [0u8; 3];
    let mut st2 = BitUnpackState::new(bw);
    let mut c2 = ReadCursor::from_slice(&bytes);
    assert!(is_ok_forget(bit_unpack(&mut st2, &mut c2, &mut parts[..k])));
    assert!(is_ok_forget(bit_unpack(&mut st2, &mut c2, &mut parts[k..])));
    kani::cover!(k == 1 && bw == 3);

    assert!(whole[0] == parts[0] && whole[1] == parts[1] && whole[2] == parts[2], "split read = single read");
    assert!(st.bit_pos == st2.bit_pos && c.remaining() == c2.remaining(), "same resume state");
    assert!(whole[0] as u64 == ref_unpack(&bytes, bw, 0), "value 0 = format definition");
    assert!(whole[1] as u64 == ref_unpack(&bytes, bw, 1), "value 1 = format definition");
    assert!(whole[2] as u64 == ref_unpack(&bytes, bw, 2), "value 2 = format definition");
}

// @h name=c10_bit_unpack_u16_wide props=C10 tier=thorough
#[kani::proof]
#[kani::unwind(12)]
#[kani::stub(alloc::fmt::format, crate::kani_verif_support::stub_format)]
#[kani::stub(std::backtrace::Backtrace::capture, crate::kani_verif_support::stub_backtrace)]
fn c10_bit_unpack_u16_wide() {
    let bytes: [u8; 4] = kani::any();
    let bw: u8 = kani::any();
    kani::assume(bw >= 9 && bw <= 10);
    let mut out = [0u16; 3];
    let mut st = BitUnpackState::new(bw);
    let mut c = ReadCursor::from_slice(&bytes);
    assert!(is_ok_forget(bit_unpack(&mut st, &mut c, &mut out)));
    kani::cover!(bw == 10);
    assert!(out[0] as u64 == ref_unpack(&bytes, bw, 0));
    assert!(out[1] as u64 == ref_unpack(&bytes, bw, 1));
    assert!(out[2] as u64 == ref_unpack(&bytes, bw, 2));
}

/// C19: any bit width byte (it comes straight from the page) and a buffer that is large enough:
/// Ok or Err, never a panic.
// @h name=c19_bit_unpack_any_width props=C19 tier=quick
#[kani::proof]
#[kani::unwind(12)]
#[kani::stub(alloc::fmt::format, crate::kani_verif_support::stub_format)]
#[kani::stub(std::backtrace::Backtrace::capture, crate::kani_verif_support::stub_backtrace)]
fn c19_bit_unpack_any_width() {
    let bytes: [u8; 9] = kani::any();
    let bw: u8 = kani::any();
    kani::assume(bw > 64);
    let mut out = [0u64; 1];
    let mut st = BitUnpackState::new(bw);
    let mut c = ReadCursor::from_slice(&bytes);
    kani::cover!(true);
    let good = is_ok_forget(bit_unpack(&mut st, &mut c, &mut out));
    assert!(!good, "a bit width above 64 is rejected with an error");
}

/// C19: a buffer shorter than the requested values need: Err, never a read past the end.
// @h name=c19_bit_unpack_truncated props=C19 tier=quick
#[kani::proof]
#[kani::unwind(12)]
#[kani::stub(alloc::fmt::format, crate::kani_verif_support::stub_format)]
#[kani::stub(std::backtrace::Backtrace::capture, crate::kani_verif_support::stub_backtrace)]
fn c19_bit_unpack_truncated() {
    let bytes: [u8; 2] = kani::any();
    let len: usize = kani::any();
    kani::assume(len <= 2);
    let bw: u8 = kani::any();
    kani::assume(bw >= 1 && bw <= 8);
    // 3 values of bw bits need ceil(3*bw/8) bytes
    kani::assume((3 * bw as usize + 7) / 8 > len);
    let mut out = [0u8; 3];
    let mut st = BitUnpackState::new(bw);
    let mut c = ReadCursor::from_slice(&bytes[..len]);
    kani::cover!(len == 1);
    let good = is_ok_forget(bit_unpack(&mut st, &mut c, &mut out));
    assert!(!good, "truncated bit-packed data is an error");
}

/// C19: the same when the read resumes inside a byte (literal runs and miniblocks are continued
/// across output batches with a carried bit position): the bits needed start at `bit_pos`.
// @h name=c19_bit_unpack_truncated_resumed props=C19 tier=quick
#[kani::proof]
#[kani::unwind(12)]
#[kani::stub(alloc::fmt::format, crate::kani_verif_support::stub_format)]
#[kani::stub(std::backtrace::Backtrace::capture, crate::kani_verif_support::stub_backtrace)]
fn c19_bit_unpack_truncated_resumed() {
    let bytes: [u8; 2] = kani::any();
    let len: usize = kani::any();
    kani::assume(len <= 2);
    let bw: u8 = kani::any();
    kani::assume(bw >= 1 && bw <= 8);
    let pos: u8 = kani::any();
    kani::assume(pos >= 1 && pos <= 7);
    // 2 values of bw bits starting at bit `pos` need ceil((pos + 2*bw)/8) bytes
    kani::assume((pos as usize + 2 * bw as usize + 7) / 8 > len);
    let mut out = [0u8; 2];
    let mut st = BitUnpackState::new(bw);
    st.bit_pos = pos;
    let mut c = ReadCursor::from_slice(&bytes[..len]);
    kani::cover!(len == 1 && pos == 5);
    let good = is_ok_forget(bit_unpack(&mut st, &mut c, &mut out));
    assert!(!good, "truncated bit-packed data is an error");
}

/// ULEB128 by definition.
fn ref_vlq(bytes: &[u8]) -> Option<(u64, usize)> {
    let mut result = 0u64;
    let mut i = 0;
    while i < bytes.len() && i < 10 {
        let b = bytes[i];
        result |= ((b & 0x7f) as u64) << (7 * i);
        if b & 0x80 == 0 {
            return Some((result, i + 1));
        }
        i += 1;
    }
    None
}

// @h name=c10_vlq_matches_definition props=C10 tier=quick
#[kani::proof]
#[kani::unwind(8)]
#[kani::stub(alloc::fmt::format, crate::kani_verif_support::stub_format)]
#[kani::stub(std::backtrace::Backtrace::capture, crate::kani_verif_support::stub_backtrace)]
fn c10_vlq_matches_definition() {
    let bytes: [u8; 5] = kani::any();
    let want = ref_vlq(&bytes);
    kani::assume(want.is_some()); // a terminated varint inside the buffer
    let mut c = ReadCursor::from_slice(&bytes);
    let r = read_unsigned_vlq(&mut c);
    let got = match &r { Ok(v) => Some(*v), Err(_) => None };
    core::mem::forget(r);
    kani::cover!(want.map(|w| w.1) == Some(3));
    assert!(got == want.map(|w| w.0), "varint value = ULEB128 definition");
    assert!(Some(5 - c.remaining()) == want.map(|w| w.1), "consumes exactly the varint bytes");
}

// @h name=c19_vlq_truncated props=C19 tier=quick
#[kani::proof]
#[kani::unwind(8)]
#[kani::stub(alloc::fmt::format, crate::kani_verif_support::stub_format)]
#[kani::stub(std::backtrace::Backtrace::capture, crate::kani_verif_support::stub_backtrace)]
fn c19_vlq_truncated() {
    let bytes: [u8; 3] = kani::any();
    let len: usize = kani::any();
    kani::assume(len <= 3);
    kani::assume(ref_vlq(&bytes[..len]).is_none()); // every byte has the continuation bit, or empty
    let mut c = ReadCursor::from_slice(&bytes[..len]);
    kani::cover!(len == 2);
    let good = is_ok_forget(read_unsigned_vlq(&mut c));
    assert!(!good, "an unterminated varint at the end of the buffer is an error");
}

// @h name=c10_zigzag_roundtrip props=C10 tier=quick
#[kani::proof]
fn c10_zigzag_roundtrip() {
    let n: i64 = kani::any();
    let u: u64 = kani::any();
    assert!(zigzag_decode(zigzag_encode(n)) == n, "decode(encode(n)) = n");
    assert!(zigzag_encode(zigzag_decode(u)) == u, "encode(decode(u)) = u (bijection)");
    // definition: 0,-1,1,-2,... -> 0,1,2,3,...
    let want = if u & 1 == 0 { (u >> 1) as i64 } else { -((u >> 1) as i64) - 1 };
    assert!(zigzag_decode(u) == want, "zigzag definition");
}
