// @module crate=glaredb_ext_parquet parent=src/column/encoding/byte_stream_split.rs
// @encodes ByteStreamSplit::<4>::try_new, ByteStreamSplit::read, ByteStreamSplitDecoder::<4, PlainInt32ValueReader>::read, PlainDecoder::read_plain
// @bounds K = 4 byte streams; 3 values (12 symbolic bytes) read as 1 + 2 values across two calls; truncation harness: 2 values stored, 3 requested; unwind 6
// @stubs alloc::fmt::format, Backtrace::capture, ReaderErrorState::set_error_fn -> flag (real pair checked by c19_reader_error_state)
//! C10: BYTE_STREAM_SPLIT stores byte k of value i at offset k*n + i; reading the page in two
//! calls returns the same values as the definition, in order. C19: a page with fewer values than
//! announced is an error, never an out-of-bounds read.
use glaredb_core::arrays::array::physical_type::{PhysicalI32, ScalarStorage};
use glaredb_core::arrays::datatype::DataType;
use glaredb_core::buffer::buffer_manager::DefaultBufferManager;

use super::*;
use crate::column::value_reader::primitive::PlainInt32ValueReader;
use crate::kani_verif_support::*;
use crate::column::value_reader::kani_verif_support_reader::error_reported;

// @h name=c10_bss_i32_resume props=C10 tier=quick
#[kani::proof]
#[kani::unwind(6)]
#[kani::stub(alloc::fmt::format, crate::kani_verif_support::stub_format)]
#[kani::stub(std::backtrace::Backtrace::capture, crate::kani_verif_support::stub_backtrace)]
#[kani::stub(crate::column::value_reader::ReaderErrorState::set_error_fn, crate::column::value_reader::kani_verif_support_reader::stub_set_error_flag)]
fn c10_bss_i32_resume() {
    let bytes: [u8; 12] = kani::any();
    let mut out = ok(Array::new(&DefaultBufferManager, DataType::int32(), 3));
    let mut dec = ok(ByteStreamSplitDecoder::<4, PlainInt32ValueReader>::try_new(ReadCursor::from_slice(&bytes)));
    let a = is_ok_forget(dec.read(Definitions::NoDefinitions, &mut out, 0, 1));
    let b = is_ok_forget(dec.read(Definitions::NoDefinitions, &mut out, 1, 2));
    assert!(a && b && !error_reported(), "well-formed page decodes");
    let (out_data, _) = out.data_and_validity_mut();
    let data = ok(PhysicalI32::get_addressable(out_data)).slice;
    let mut i = 0;
    while i < 3 {
        let want = i32::from_le_bytes([bytes[i], bytes[3 + i], bytes[6 + i], bytes[9 + i]]);
        assert!(data[i] == want, "value i is assembled from byte i of each of the 4 streams");
        i += 1;
    }
    kani::cover!(data[0] == 0x01020304);
    core::mem::forget(out);
    core::mem::forget(dec);
}

// @h name=c19_bss_truncated props=C19 tier=quick
#[kani::proof]
#[kani::unwind(6)]
#[kani::stub(alloc::fmt::format, crate::kani_verif_support::stub_format)]
#[kani::stub(std::backtrace::Backtrace::capture, crate::kani_verif_support::stub_backtrace)]
#[kani::stub(crate::column::value_reader::ReaderErrorState::set_error_fn, crate::column::value_reader::kani_verif_support_reader::stub_set_error_flag)]
fn c19_bss_truncated() {
    let bytes: [u8; 8] = kani::any();
    let mut out = ok(Array::new(&DefaultBufferManager, DataType::int32(), 3));
    let mut dec = ok(ByteStreamSplitDecoder::<4, PlainInt32ValueReader>::try_new(ReadCursor::from_slice(&bytes)));
    // the page header announces 3 values, the data holds 2
    let good = is_ok_forget(dec.read(Definitions::NoDefinitions, &mut out, 0, 3)) && !error_reported();
    kani::cover!(!good);
    assert!(!good, "more values requested than stored is an error");
    core::mem::forget(out);
    core::mem::forget(dec);
}

// @h name=c19_bss_truncated_resumed props=C19 tier=quick
/// The shortfall is only reached by the second read of the page (one read per output batch).
#[kani::proof]
#[kani::unwind(6)]
#[kani::stub(alloc::fmt::format, crate::kani_verif_support::stub_format)]
#[kani::stub(std::backtrace::Backtrace::capture, crate::kani_verif_support::stub_backtrace)]
#[kani::stub(crate::column::value_reader::ReaderErrorState::set_error_fn, crate::column::value_reader::kani_verif_support_reader::stub_set_error_flag)]
fn c19_bss_truncated_resumed() {
    let bytes: [u8; 8] = kani::any();
    let mut out = ok(Array::new(&DefaultBufferManager, DataType::int32(), 3));
    let mut dec = ok(ByteStreamSplitDecoder::<4, PlainInt32ValueReader>::try_new(ReadCursor::from_slice(&bytes)));
    // the page header announces 3 values, the data holds 2: 1 value, then 2 more
    let first = is_ok_forget(dec.read(Definitions::NoDefinitions, &mut out, 0, 1)) && !error_reported();
    assert!(first, "the first value is there");
    let second = is_ok_forget(dec.read(Definitions::NoDefinitions, &mut out, 1, 2)) && !error_reported();
    kani::cover!(!second);
    assert!(!second, "more values requested than remain in the streams is an error");
    core::mem::forget(out);
    core::mem::forget(dec);
}
