// @module crate=glaredb_ext_parquet parent=src/column/encoding/delta_byte_array.rs
// @encodes DeltaByteArrayDecoder::read, ReadCursor::read_bytes_unchecked, BinaryViewAddressableMut::put (StringViewBuffer::push_bytes_as_row)
// @bounds decoder state constructed directly: 2 values with concrete prefix lengths (0,1) and suffix lengths (2,1) over 3 symbolic suffix bytes, read as 1 + 1 rows in two calls (a page continued in the next output batch) into a Binary array; 3 rows requested from 2 lengths for the C19 harness; unwind 8
//! C10: DELTA_BYTE_ARRAY (incremental encoding): value i is the first prefix[i] bytes of value
//! i-1 followed by suffix[i] new bytes - also when value i-1 was returned by the previous call.
//! C19: more rows than decoded lengths is an error, not a panic.
use glaredb_core::arrays::array::physical_type::{Addressable, ScalarStorage};
use glaredb_core::arrays::datatype::DataType;

use super::*;
use crate::kani_verif_support::*;

fn mk(data: &[u8; 3]) -> DeltaByteArrayDecoder {
    let mut prefix_lengths = ok(unsafe { DbVec::<i32>::new_uninit(&DefaultBufferManager, 2) });
    prefix_lengths.as_slice_mut()[0] = 0;
    prefix_lengths.as_slice_mut()[1] = 1;
    let mut suffix_lengths = ok(unsafe { DbVec::<i32>::new_uninit(&DefaultBufferManager, 2) });
    suffix_lengths.as_slice_mut()[0] = 2;
    suffix_lengths.as_slice_mut()[1] = 1;
    DeltaByteArrayDecoder {
        verify_utf8: false,
        val_buf: Vec::new(),
        curr_len_idx: 0,
        prefix_lengths,
        suffix_lengths,
        cursor: ReadCursor::from_slice(data),
    }
}

// @h name=c10_dba_resume props=C10 tier=quick
#[kani::proof]
#[kani::unwind(8)]
#[kani::stub(alloc::fmt::format, crate::kani_verif_support::stub_format)]
#[kani::stub(std::backtrace::Backtrace::capture, crate::kani_verif_support::stub_backtrace)]
fn c10_dba_resume() {
    let data: [u8; 3] = kani::any();
    let mut dec = mk(&data);
    let mut out = ok(Array::new(&DefaultBufferManager, DataType::binary(), 2));
    let a = is_ok_forget(dec.read(Definitions::NoDefinitions, &mut out, 0, 1));
    let b = is_ok_forget(dec.read(Definitions::NoDefinitions, &mut out, 1, 1));
    assert!(a && b, "well-formed page decodes");
    {
        let (out_data, _) = out.data_and_validity_mut();
        let rows = ok(PhysicalBinary::get_addressable(out_data));
        let r0 = rows.get(0).unwrap_or(&[]);
        let r1 = rows.get(1).unwrap_or(&[]);
        assert!(r0.len() == 2 && r0[0] == data[0] && r0[1] == data[1], "value 0 = its 2 suffix bytes");
        assert!(r1.len() == 2 && r1[0] == data[0] && r1[1] == data[2], "value 1 = 1 byte of value 0 + 1 suffix byte");
        kani::cover!(r1[1] == 7);
    }
    core::mem::forget(out);
    core::mem::forget(dec);
}

// @h name=c19_dba_more_rows_than_lengths props=C19 tier=quick
#[kani::proof]
#[kani::unwind(8)]
#[kani::stub(alloc::fmt::format, crate::kani_verif_support::stub_format)]
#[kani::stub(std::backtrace::Backtrace::capture, crate::kani_verif_support::stub_backtrace)]
fn c19_dba_more_rows_than_lengths() {
    let data: [u8; 3] = kani::any();
    let mut dec = mk(&data);
    let mut out = ok(Array::new(&DefaultBufferManager, DataType::binary(), 3));
    let good = is_ok_forget(dec.read(Definitions::NoDefinitions, &mut out, 0, 3));
    kani::cover!(!good);
    assert!(!good, "more rows than decoded lengths is an error");
    core::mem::forget(out);
    core::mem::forget(dec);
}
