// @module crate=glaredb_ext_parquet parent=src/column/encoding/delta_binary_packed.rs
// @encodes DeltaBinaryPackedValueDecoder::<i32>::{try_new,read,load_next_block}, bit_unpack, read_unsigned_vlq, zigzag_decode
// @bounds header: <= 8 symbolic bytes; value stream: decoder state constructed directly (one block, one miniblock of 32 values, concrete bit width per harness in {0,3,8}, symbolic first value / min delta / packed bytes); n <= 4 output values, split point concrete per harness; unwind 10
//! C10: DELTA_BINARY_PACKED. Values are first + prefix sums of (min_delta + packed delta),
//! with wrapping arithmetic as the specification demands; reading n values in one call
//! equals reading k then n-k (a page continued in the next output batch).
//! C19: the header is parsed from arbitrary bytes without panic / division by zero /
//! unbounded allocation.
use super::*;
use crate::kani_verif_support::*;

fn ref_bits(bytes: &[u8], start_bit: usize, bw: u8) -> u64 {
    let mut v = 0u64;
    let mut b = 0u8;
    while b < bw {
        let bit = start_bit + b as usize;
        v |= (((bytes[bit / 8] >> (bit % 8)) & 1) as u64) << b;
        b += 1;
    }
    v
}

/// A decoder positioned right after the page header and the block header: `first` already
/// "decoded", `remaining` values still in the stream, all in miniblock 0 of width `bw`.
fn mk(bytes: &[u8], bw: u8, first: i32, min_delta: i32, total: usize) -> DeltaBinaryPackedValueDecoder<i32> {
    DeltaBinaryPackedValueDecoder {
        cursor: ReadCursor::from_slice(bytes),
        mini_block_count: 1,
        total_values: total,
        values_remaining: total - 1,
        mini_block_bit_widths: vec![bw],
        mini_block_idx: 0,
        mini_block_value_idx: 0,
        values_per_mini_block: 32,
        min_delta,
        prev_value: first,
        first_value_read: false,
        bit_unpack_state: BitUnpackState::new(bw),
    }
}

macro_rules! delta_read {
    ($whole:ident, $split:ident, $bw:expr, $n:expr, $k:expr) => {
        /// one call: values = first, first+d1, ... (wrapping)
        #[kani::proof]
        #[kani::unwind(10)]
        #[kani::stub(alloc::fmt::format, crate::kani_verif_support::stub_format)]
        #[kani::stub(std::backtrace::Backtrace::capture, crate::kani_verif_support::stub_backtrace)]
        fn $whole() {
            let bytes: [u8; 4] = kani::any();
            let first: i32 = kani::any();
            let min_delta: i32 = kani::any();
            let mut d = mk(&bytes, $bw, first, min_delta, 8);
            let mut out = [0i32; $n];
            assert!(is_ok_forget(d.read(&mut out)), "well-formed stream decodes");
            kani::cover!(true);
            let mut want = first;
            let mut i = 0;
            while i < $n {
                if i > 0 {
                    let delta = ref_bits(&bytes, (i - 1) * $bw as usize, $bw) as i32;
                    want = want.wrapping_add(min_delta).wrapping_add(delta);
                }
                assert!(out[i] == want, "value i = first + sum of (min_delta + packed delta), wrapping");
                i += 1;
            }
            core::mem::forget(d);
        }

        /// two calls (page continued in the next output batch) give the same values as one
        #[kani::proof]
        #[kani::unwind(10)]
        #[kani::stub(alloc::fmt::format, crate::kani_verif_support::stub_format)]
        #[kani::stub(std::backtrace::Backtrace::capture, crate::kani_verif_support::stub_backtrace)]
        fn $split() {
            let bytes: [u8; 4] = kani::any();
            let first: i32 = kani::any();
            let min_delta: i32 = kani::any();
            let mut d1 = mk(&bytes, $bw, first, min_delta, 8);
            let mut d2 = mk(&bytes, $bw, first, min_delta, 8);
            let mut whole = [0i32; $n];
            let mut parts = [0i32; $n];
            assert!(is_ok_forget(d1.read(&mut whole)));
            assert!(is_ok_forget(d2.read(&mut parts[..$k])));
            assert!(is_ok_forget(d2.read(&mut parts[$k..])));
            kani::cover!(true);
            let mut i = 0;
            while i < $n {
                assert!(whole[i] == parts[i], "reading k then n-k values = reading n values");
                i += 1;
            }
            core::mem::forget(d1);
            core::mem::forget(d2);
        }
    };
}

// @h name=c10_delta_values_w3 props=C10 tier=quick
// @h name=c10_delta_resume_w3 props=C10 tier=quick
delta_read!(c10_delta_values_w3, c10_delta_resume_w3, 3, 4, 2);
// @h name=c10_delta_values_w8 props=C10 tier=thorough
// @h name=c10_delta_resume_w8 props=C10 tier=thorough
delta_read!(c10_delta_values_w8, c10_delta_resume_w8, 8, 4, 1);
// an empty first read (the first slice of an optional column is all NULL) must not consume the header's first value
// @h name=c10_delta_values_w3_k0 props=C10 tier=thorough
// @h name=c10_delta_resume_w3_k0 props=C10 tier=quick
delta_read!(c10_delta_values_w3_k0, c10_delta_resume_w3_k0, 3, 3, 0);
// @h name=c10_delta_values_w0 props=C10 tier=thorough
// @h name=c10_delta_resume_w0 props=C10 tier=thorough
delta_read!(c10_delta_values_w0, c10_delta_resume_w0, 0, 3, 2);

/// C19: header parsing over arbitrary bytes: Ok or Err; no division by zero, no panic, and the
/// miniblock table allocation is bounded by the page size.
macro_rules! delta_header {
    ($name:ident, $len:expr) => {
        #[kani::proof]
        #[kani::unwind(12)]
        #[kani::stub(alloc::fmt::format, crate::kani_verif_support::stub_format)]
        #[kani::stub(std::backtrace::Backtrace::capture, crate::kani_verif_support::stub_backtrace)]
        fn $name() {
            let bytes: [u8; $len] = kani::any();
            // keep the miniblock count small enough for the model's allocator; the unbounded
            // `vec![0; mini_block_count]` is checked by c19_delta_header_alloc_bounded
            if $len >= 2 {
                kani::assume(bytes[0] & 0x80 == 0 && bytes[1] <= 4);
            }
            let r = DeltaBinaryPackedValueDecoder::<i32>::try_new(ReadCursor::from_slice(&bytes));
            kani::cover!(r.is_err());
            kani::cover!($len < 6 || r.is_ok());
            core::mem::forget(r);
        }
    };
}
// @h name=c19_delta_header_len4 props=C19 tier=thorough
delta_header!(c19_delta_header_len4, 4);
// @h name=c19_delta_header_len6 props=C19 tier=quick
delta_header!(c19_delta_header_len6, 6);
// @h name=c19_delta_header_len2 props=C19 tier=thorough
delta_header!(c19_delta_header_len2, 2);

/// C19: a miniblock count taken from the header that exceeds what the page can hold must be
/// rejected before it sizes the bit-width table (no allocation bounded only by the varint).
// @h name=c19_delta_header_alloc_bounded props=C19 tier=quick
#[kani::proof]
#[kani::unwind(12)]
#[kani::stub(alloc::fmt::format, crate::kani_verif_support::stub_format)]
#[kani::stub(std::backtrace::Backtrace::capture, crate::kani_verif_support::stub_backtrace)]
fn c19_delta_header_alloc_bounded() {
    let bytes: [u8; 5] = kani::any();
    // one-byte varints; miniblock count larger than the 3 bytes that follow it
    kani::assume(bytes[0] & 0x80 == 0 && bytes[1] & 0x80 == 0 && bytes[1] > 3);
    kani::cover!(bytes[1] == 127);
    let r = DeltaBinaryPackedValueDecoder::<i32>::try_new(ReadCursor::from_slice(&bytes));
    // the table has one byte per miniblock of a block that follows the header: it must fit in
    // the 5-byte page (an error, or no table at all when the page announces no block)
    let bounded = match &r {
        Ok(d) => d.mini_block_bit_widths.len() <= 5,
        Err(_) => true,
    };
    core::mem::forget(r);
    assert!(bounded, "the bit-width table is never sized beyond what the page can hold");
}

// (A variant of the resume obligation through try_new over page bytes - independent of the decoder's
// private fields - was tried: block size 128 / one miniblock did not finish in 1800 s. A change that
// alters the decoder's fields therefore makes these harnesses fail to build: exit 2, inconclusive.)
