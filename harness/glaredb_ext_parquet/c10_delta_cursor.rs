// @module crate=glaredb_ext_parquet parent=src/column/encoding/delta_binary_packed.rs
// @encodes DeltaBinaryPackedValueDecoder::<i32>::{try_new,read,try_into_cursor,load_next_block}, bit_unpack, read_unsigned_vlq, zigzag_decode
// @bounds single-value page: concrete header structure (block 128, 4 miniblocks, 1 value), symbolic first value (one-byte varint) and 2 trailing bytes; try_into_cursor: decoder state constructed directly (4 miniblocks of 32 values; after a completely filled block; inside a partially read miniblock of concrete width 3 over 14 symbolic bytes; with a truncated miniblock of symbolic width 1..=8); unwind 10
//! C10: the lengths of DELTA_LENGTH_BYTE_ARRAY / DELTA_BYTE_ARRAY pages are a DELTA_BINARY_PACKED
//! stream followed by the string bytes: after the lengths are read, `try_into_cursor` must hand
//! back a cursor positioned exactly at the first byte after the stream - for a page with a single
//! value (header only, no block), for a block that is filled completely, and for a partially
//! filled last miniblock (padded to its full size). C19: a truncated last miniblock is an error.
use super::*;
use crate::kani_verif_support::*;

fn state(bytes: &[u8], widths: [u8; 4], mb_idx: usize, mb_value_idx: usize, remaining: usize) -> DeltaBinaryPackedValueDecoder<i32> {
    DeltaBinaryPackedValueDecoder {
        cursor: ReadCursor::from_slice(bytes),
        mini_block_count: 4,
        total_values: 129,
        values_remaining: remaining,
        mini_block_bit_widths: vec![widths[0], widths[1], widths[2], widths[3]],
        mini_block_idx: mb_idx,
        mini_block_value_idx: mb_value_idx,
        values_per_mini_block: 32,
        min_delta: 0,
        prev_value: 0,
        first_value_read: true,
        bit_unpack_state: BitUnpackState::new(if mb_idx < 4 { widths[mb_idx] } else { 0 }),
    }
}

// @h name=c10_delta_single_value_page props=C10 tier=quick
/// Writers emit no block at all when the page holds one value (the header carries it): the
/// bytes after the header belong to whatever follows the stream (the string data). Header
/// parsing must leave the decoder in the state c10_delta_single_value_read starts from.
#[kani::proof]
#[kani::unwind(10)]
#[kani::stub(alloc::fmt::format, crate::kani_verif_support::stub_format)]
#[kani::stub(std::backtrace::Backtrace::capture, crate::kani_verif_support::stub_backtrace)]
fn c10_delta_single_value_page() {
    let zz: u8 = kani::any();
    kani::assume(zz < 0x80);
    let t0: u8 = kani::any();
    let t1: u8 = kani::any();
    let page = [0x80u8, 0x01, 0x04, 0x01, zz, t0, t1];
    let r = DeltaBinaryPackedValueDecoder::<i32>::try_new(ReadCursor::from_slice(&page));
    let want = ((zz >> 1) as i32) ^ -((zz & 1) as i32);
    let good = match &r {
        Ok(d) => {
            d.total_values == 1 && d.values_remaining == 0 && !d.first_value_read && d.prev_value == want
                && d.cursor.remaining() == 2 && d.mini_block_idx == 0 && d.mini_block_value_idx == 0
                && d.mini_block_bit_widths.len() <= 4
        }
        Err(_) => false,
    };
    kani::cover!(want == -3);
    core::mem::forget(r);
    assert!(good, "a page with a single value (header only) is valid: no block is read, the value is the header's zigzag first value, the bytes after the header are untouched");
}

// @h name=c10_delta_single_value_read props=C10 tier=quick
#[kani::proof]
#[kani::unwind(10)]
#[kani::stub(alloc::fmt::format, crate::kani_verif_support::stub_format)]
#[kani::stub(std::backtrace::Backtrace::capture, crate::kani_verif_support::stub_backtrace)]
fn c10_delta_single_value_read() {
    let trailing: [u8; 2] = kani::any();
    let first: i32 = kani::any();
    let table_len: usize = kani::any();
    kani::assume(table_len == 0 || table_len == 4);
    let mut d = DeltaBinaryPackedValueDecoder::<i32> {
        cursor: ReadCursor::from_slice(&trailing),
        mini_block_count: 4,
        total_values: 1,
        values_remaining: 0,
        mini_block_bit_widths: if table_len == 0 { Vec::new() } else { vec![0u8; 4] },
        mini_block_idx: 0,
        mini_block_value_idx: 0,
        values_per_mini_block: 32,
        min_delta: 0,
        prev_value: first,
        first_value_read: false,
        bit_unpack_state: BitUnpackState::new(0),
    };
    let mut out = [0i32; 1];
    assert!(is_ok_forget(d.read(&mut out)), "the single value decodes");
    assert!(out[0] == first, "the value is the header's first value");
    kani::cover!(table_len == 0);
    let c = ok(d.try_into_cursor());
    assert!(c.remaining() == 2, "bytes after the header are left for the caller");
}

// @h name=c10_delta_block_end_step props=C10 tier=quick
/// Reachability of the state used by c10_delta_into_cursor_full_block: reading the last value
/// of the last miniblock leaves the decoder at miniblock index 4, value index 0.
#[kani::proof]
#[kani::unwind(10)]
#[kani::stub(alloc::fmt::format, crate::kani_verif_support::stub_format)]
#[kani::stub(std::backtrace::Backtrace::capture, crate::kani_verif_support::stub_backtrace)]
fn c10_delta_block_end_step() {
    let b: [u8; 1] = kani::any();
    let mut d = state(&b, [8, 8, 8, 8], 3, 31, 1);
    let mut out = [0i32; 1];
    assert!(is_ok_forget(d.read(&mut out)));
    assert!(d.mini_block_idx == 4 && d.mini_block_value_idx == 0 && d.values_remaining == 0 && d.cursor.remaining() == 0);
    kani::cover!(out[0] == 7);
    core::mem::forget(d);
}

// @h name=c10_delta_into_cursor_full_block props=C10 tier=quick
#[kani::proof]
#[kani::unwind(10)]
#[kani::stub(alloc::fmt::format, crate::kani_verif_support::stub_format)]
#[kani::stub(std::backtrace::Backtrace::capture, crate::kani_verif_support::stub_backtrace)]
fn c10_delta_into_cursor_full_block() {
    let trailing: [u8; 2] = kani::any();
    let widths: [u8; 4] = kani::any();
    kani::assume(widths[0] <= 32 && widths[1] <= 32 && widths[2] <= 32 && widths[3] <= 32);
    let d = state(&trailing, widths, 4, 0, 0);
    kani::cover!(widths[3] == 5);
    let c = ok(d.try_into_cursor());
    assert!(c.remaining() == 2, "a completely consumed block has no padding to skip");
}

// @h name=c10_delta_into_cursor_partial_miniblock props=C10 tier=quick
#[kani::proof]
#[kani::unwind(10)]
#[kani::stub(alloc::fmt::format, crate::kani_verif_support::stub_format)]
#[kani::stub(std::backtrace::Backtrace::capture, crate::kani_verif_support::stub_backtrace)]
fn c10_delta_into_cursor_partial_miniblock() {
    // miniblock 0: 32 values x 3 bits = 12 bytes, then 2 bytes that follow the stream
    let bytes: [u8; 14] = kani::any();
    let mut d = state(&bytes, [3, 0, 0, 0], 0, 0, 2);
    let mut out = [0i32; 2];
    assert!(is_ok_forget(d.read(&mut out)), "two values of the miniblock decode");
    kani::cover!(out[1] == 9);
    let c = ok(d.try_into_cursor());
    assert!(c.remaining() == 2, "the rest of the padded miniblock is skipped, nothing more");
}

// @h name=c19_delta_into_cursor_truncated props=C19 tier=quick
#[kani::proof]
#[kani::unwind(10)]
#[kani::stub(alloc::fmt::format, crate::kani_verif_support::stub_format)]
#[kani::stub(std::backtrace::Backtrace::capture, crate::kani_verif_support::stub_backtrace)]
fn c19_delta_into_cursor_truncated() {
    let bytes: [u8; 1] = kani::any();
    let w: u8 = kani::any();
    let pos: usize = kani::any();
    kani::assume(w >= 1 && w <= 8 && pos >= 1 && pos <= 16);
    // at most 16 values of the miniblock were read: at least 16 bits (2 bytes) of padding remain,
    // the page has 1 byte left
    let d = state(&bytes, [w, 0, 0, 0], 0, pos, 0);
    let r = d.try_into_cursor();
    let bad = match &r {
        Ok(c) => c.remaining() > 1,
        Err(_) => false,
    };
    kani::cover!(r.is_err());
    core::mem::forget(r);
    assert!(!bad, "no cursor that claims more bytes than the page holds");
}
