// @module crate=glaredb_ext_parquet parent=src/column/encoding/dictionary.rs
// @encodes Dictionary::<PlainInt32ValueReader>::{try_empty,prepare_with_values}, DictionaryDecoder::{new,read}, RleBitPackedDecoder::read, copy_rows_array (Int32)
// @bounds dictionary page of 2 INT32 values (8 symbolic bytes); data page of 2 rows whose indices are one RLE run (header 0x04) of a symbolic index byte at bit width 8; no definition levels; unwind 6
// @stubs alloc::fmt::format, Backtrace::capture, ReaderErrorState::set_error_fn -> flag (real pair checked by c19_reader_error_state)
//! C10: a dictionary-encoded page returns, for every row, the dictionary entry its index
//! selects. C19: an index outside the dictionary (a corrupt page) is an error or rows, never a
//! panic or an out-of-bounds read.
use glaredb_core::arrays::array::physical_type::{PhysicalI32, ScalarStorage};
use glaredb_core::buffer::buffer_manager::DefaultBufferManager;

use super::*;
use crate::column::value_reader::kani_verif_support_reader::error_reported;
use crate::column::value_reader::primitive::PlainInt32ValueReader;
use crate::kani_verif_support::*;

fn run(vals: &[i32; 2], idx: u8) -> Option<(i32, i32, bool, bool)> {
    let mut dict = ok(Dictionary::<PlainInt32ValueReader>::try_empty(&DefaultBufferManager, DataType::int32()));
    let prepared = is_ok_forget(dict.prepare_with_values(2, ReadCursor::from_slice(vals)));
    assert!(prepared && !error_reported(), "well-formed dictionary page");
    let page = [0x04u8, idx];
    let mut dec = DictionaryDecoder::<PlainInt32ValueReader>::new(RleBitPackedDecoder::new(ReadCursor::from_slice(&page), 8));
    let mut out = ok(Array::new(&DefaultBufferManager, DataType::int32(), 2));
    let good = is_ok_forget(dec.read(&dict, Definitions::NoDefinitions, &mut out, 0, 2));
    let r = if good {
        let (out_data, out_validity) = out.data_and_validity_mut();
        let data = ok(PhysicalI32::get_addressable(out_data)).slice;
        Some((data[0], data[1], out_validity.is_valid(0), out_validity.is_valid(1)))
    } else {
        None
    };
    core::mem::forget(out);
    core::mem::forget(dec);
    core::mem::forget(dict);
    r
}

// @h name=c10_dictionary_lookup props=C10 tier=quick
#[kani::proof]
#[kani::unwind(6)]
#[kani::stub(alloc::fmt::format, crate::kani_verif_support::stub_format)]
#[kani::stub(std::backtrace::Backtrace::capture, crate::kani_verif_support::stub_backtrace)]
#[kani::stub(crate::column::value_reader::ReaderErrorState::set_error_fn, crate::column::value_reader::kani_verif_support_reader::stub_set_error_flag)]
fn c10_dictionary_lookup() {
    let vals: [i32; 2] = kani::any();
    let idx: u8 = kani::any();
    kani::assume(idx < 2);
    let r = run(&vals, idx);
    kani::cover!(idx == 1);
    let want = vals[idx as usize];
    assert!(r == Some((want, want, true, true)), "each row is the dictionary entry its index selects");
}

// @h name=c19_dictionary_index_out_of_range props=C19 tier=quick
#[kani::proof]
#[kani::unwind(6)]
#[kani::stub(alloc::fmt::format, crate::kani_verif_support::stub_format)]
#[kani::stub(std::backtrace::Backtrace::capture, crate::kani_verif_support::stub_backtrace)]
#[kani::stub(crate::column::value_reader::ReaderErrorState::set_error_fn, crate::column::value_reader::kani_verif_support_reader::stub_set_error_flag)]
fn c19_dictionary_index_out_of_range() {
    let vals: [i32; 2] = kani::any();
    let idx: u8 = kani::any();
    kani::assume(idx >= 2);
    // rows or an error: the assertions are the decoder's own panics and memory-safety checks
    let r = run(&vals, idx);
    kani::cover!(r.is_none() || idx == 2);
}

// @h name=c10_dictionary_reprepare props=C10 tier=quick
/// One reader sees a dictionary page per row group: after `prepare_with_values(n, ..)` exactly
/// the entries 0..n are values (and only the slot after them is the NULL marker), whatever
/// dictionaries were loaded before. History: 3 entries, then 1, then 2.
#[kani::proof]
#[kani::unwind(6)]
#[kani::stub(alloc::fmt::format, crate::kani_verif_support::stub_format)]
#[kani::stub(std::backtrace::Backtrace::capture, crate::kani_verif_support::stub_backtrace)]
#[kani::stub(crate::column::value_reader::ReaderErrorState::set_error_fn, crate::column::value_reader::kani_verif_support_reader::stub_set_error_flag)]
fn c10_dictionary_reprepare() {
    // only the current dictionary's values are symbolic: the earlier ones matter through their
    // sizes alone (symbolic earlier values made the counterexample trace run exceed 900 s)
    let d1: [i32; 3] = [11, 12, 13];
    let d2: [i32; 1] = [21];
    let d3: [i32; 2] = kani::any();
    let idx: u8 = kani::any();
    kani::assume(idx < 2);
    let mut dict = ok(Dictionary::<PlainInt32ValueReader>::try_empty(&DefaultBufferManager, DataType::int32()));
    assert!(is_ok_forget(dict.prepare_with_values(3, ReadCursor::from_slice(&d1))));
    assert!(is_ok_forget(dict.prepare_with_values(1, ReadCursor::from_slice(&d2))));
    assert!(is_ok_forget(dict.prepare_with_values(2, ReadCursor::from_slice(&d3))));
    assert!(!error_reported());
    let page = [0x04u8, idx];
    let mut dec = DictionaryDecoder::<PlainInt32ValueReader>::new(RleBitPackedDecoder::new(ReadCursor::from_slice(&page), 8));
    let mut out = ok(Array::new(&DefaultBufferManager, DataType::int32(), 2));
    let good = is_ok_forget(dec.read(&dict, Definitions::NoDefinitions, &mut out, 0, 2));
    assert!(good, "indices inside the current dictionary decode");
    {
        let (out_data, out_validity) = out.data_and_validity_mut();
        let data = ok(PhysicalI32::get_addressable(out_data)).slice;
        kani::cover!(idx == 1);
        assert!(out_validity.is_valid(0) && out_validity.is_valid(1), "an entry of the current dictionary is not NULL");
        assert!(data[0] == d3[idx as usize] && data[1] == d3[idx as usize], "rows come from the current dictionary");
    }
    core::mem::forget(out);
    core::mem::forget(dec);
    core::mem::forget(dict);
}
