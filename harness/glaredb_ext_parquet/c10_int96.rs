// @module crate=glaredb_ext_parquet parent=src/column/value_reader/int96.rs
// @encodes Int96TsReader::read_next_unchecked, PlainDecoder::<Int96TsReader>::read_plain, ReadCursor::read_next_unchecked
// @bounds one INT96 value (12 symbolic bytes: i64 nanoseconds of day, u32 Julian day) read into a 1-row Int64 array; Julian day within 106750 days of 1970-01-01 (the whole Timestamp(ns) range) and 0 <= nanos < 86_400e9 for the value harnesses; all 2^96 byte patterns for the no-panic harness; unwind 3
// @stubs alloc::fmt::format, Backtrace::capture, ReaderErrorState::set_error_fn -> flag (real pair checked by c19_reader_error_state)
//! C10: an INT96 timestamp decodes to (julian_day - 2440588) * 86_400e9 + nanos_of_day
//! nanoseconds since the Unix epoch, for days before as well as after 1970-01-01.
//! C19: any 12 bytes decode to a value or an error, never a panic.
use glaredb_core::arrays::array::Array;
use glaredb_core::arrays::array::physical_type::{PhysicalI64, ScalarStorage};
use glaredb_core::arrays::datatype::DataType;
use glaredb_core::buffer::buffer_manager::DefaultBufferManager;

use super::*;
use crate::column::encoding::Definitions;
use crate::column::encoding::plain::PlainDecoder;
use crate::kani_verif_support::*;
use crate::column::value_reader::kani_verif_support_reader::error_reported;

const EPOCH: i64 = 2_440_588;
const NANOS: i64 = 86_400_000_000_000;
const MAX_DAYS: i64 = 106_750;

fn decode(nanos: i64, julian: u32) -> Option<i64> {
    let mut bytes = [0u8; 12];
    let n = nanos.to_le_bytes();
    let j = julian.to_le_bytes();
    let mut i = 0;
    while i < 8 {
        bytes[i] = n[i];
        i += 1;
    }
    bytes[8] = j[0];
    bytes[9] = j[1];
    bytes[10] = j[2];
    bytes[11] = j[3];
    let mut out = ok(Array::new(&DefaultBufferManager, DataType::int64(), 1));
    let mut dec = PlainDecoder { buffer: ReadCursor::from_slice(&bytes), value_reader: Int96TsReader };
    let good = is_ok_forget(dec.read_plain(Definitions::NoDefinitions, &mut out, 0, 1)) && !error_reported();
    let r = if good {
        let (out_data, _) = out.data_and_validity_mut();
        Some(ok(PhysicalI64::get_addressable(out_data)).slice[0])
    } else {
        None
    };
    core::mem::forget(out);
    r
}

// @h name=c10_int96_after_epoch props=C10 tier=quick
#[kani::proof]
#[kani::unwind(9)]
#[kani::stub(alloc::fmt::format, crate::kani_verif_support::stub_format)]
#[kani::stub(std::backtrace::Backtrace::capture, crate::kani_verif_support::stub_backtrace)]
#[kani::stub(crate::column::value_reader::ReaderErrorState::set_error_fn, crate::column::value_reader::kani_verif_support_reader::stub_set_error_flag)]
fn c10_int96_after_epoch() {
    let nanos: i64 = kani::any();
    let julian: u32 = kani::any();
    let days = julian as i64 - EPOCH;
    kani::assume(days >= 0 && days <= MAX_DAYS && nanos >= 0 && nanos < NANOS);
    let got = decode(nanos, julian);
    kani::cover!(days == 20_000);
    assert!(got == Some(days * NANOS + nanos), "INT96 at or after 1970-01-01 decodes to ns since epoch");
}

// @h name=c10_int96_before_epoch props=C10 tier=quick
#[kani::proof]
#[kani::unwind(9)]
#[kani::stub(alloc::fmt::format, crate::kani_verif_support::stub_format)]
#[kani::stub(std::backtrace::Backtrace::capture, crate::kani_verif_support::stub_backtrace)]
#[kani::stub(crate::column::value_reader::ReaderErrorState::set_error_fn, crate::column::value_reader::kani_verif_support_reader::stub_set_error_flag)]
fn c10_int96_before_epoch() {
    let nanos: i64 = kani::any();
    let julian: u32 = kani::any();
    let days = julian as i64 - EPOCH;
    kani::assume(days < 0 && days >= -MAX_DAYS && nanos >= 0 && nanos < NANOS);
    let got = decode(nanos, julian);
    kani::cover!(days == -1);
    assert!(got == Some(days * NANOS + nanos), "INT96 before 1970-01-01 decodes to negative ns since epoch");
}

// @h name=c19_int96_any_bytes props=C19 tier=quick
#[kani::proof]
#[kani::unwind(9)]
#[kani::stub(alloc::fmt::format, crate::kani_verif_support::stub_format)]
#[kani::stub(std::backtrace::Backtrace::capture, crate::kani_verif_support::stub_backtrace)]
#[kani::stub(crate::column::value_reader::ReaderErrorState::set_error_fn, crate::column::value_reader::kani_verif_support_reader::stub_set_error_flag)]
fn c19_int96_any_bytes() {
    let nanos: i64 = kani::any();
    let julian: u32 = kani::any();
    // rows or an error, never a panic (arithmetic overflow included)
    let got = decode(nanos, julian);
    kani::cover!(got.is_none() || julian == 0);
}
