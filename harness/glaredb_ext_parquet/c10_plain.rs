// @module crate=glaredb_ext_parquet parent=src/column/encoding/plain.rs
// @encodes PlainDecoder::<PlainInt32ValueReader>::read_plain, PrimitiveValueReader::read_next_unchecked, Definitions (definition levels -> NULL positions), Validity::set_invalid
// @bounds 3 rows at output offset 1 of a 4-row INT32 array; definition levels symbolic in {0, 1} (max level 1); 12 symbolic value bytes; unwind 6
// @stubs alloc::fmt::format, Backtrace::capture, ReaderErrorState::set_error_fn -> flag (real pair checked by c19_reader_error_state)
//! C10: PLAIN pages with definition levels: a row is NULL exactly where its definition level is
//! below the maximum; the non-NULL rows receive the stored values in file order (the k-th
//! non-NULL row gets the k-th value), other rows of the output are untouched, and exactly the
//! consumed bytes are consumed.
use glaredb_core::arrays::array::physical_type::{PhysicalI32, ScalarStorage};
use glaredb_core::arrays::datatype::DataType;
use glaredb_core::buffer::buffer_manager::DefaultBufferManager;

use super::*;
use crate::column::value_reader::primitive::PlainInt32ValueReader;
use crate::kani_verif_support::*;
use crate::column::value_reader::kani_verif_support_reader::error_reported;

// @h name=c10_plain_definition_levels props=C10 tier=quick
#[kani::proof]
#[kani::unwind(6)]
#[kani::stub(alloc::fmt::format, crate::kani_verif_support::stub_format)]
#[kani::stub(std::backtrace::Backtrace::capture, crate::kani_verif_support::stub_backtrace)]
#[kani::stub(crate::column::value_reader::ReaderErrorState::set_error_fn, crate::column::value_reader::kani_verif_support_reader::stub_set_error_flag)]
fn c10_plain_definition_levels() {
    let vals: [i32; 3] = kani::any();
    let levels: [i16; 3] = kani::any();
    kani::assume(levels[0] >= 0 && levels[0] <= 1 && levels[1] >= 0 && levels[1] <= 1 && levels[2] >= 0 && levels[2] <= 1);
    let mut out = ok(Array::new(&DefaultBufferManager, DataType::int32(), 4));
    let mut dec = PlainDecoder { buffer: ReadCursor::from_slice(&vals), value_reader: PlainInt32ValueReader::default() };
    let good = is_ok_forget(dec.read_plain(Definitions::HasDefinitions { levels: &levels, max: 1 }, &mut out, 1, 3)) && !error_reported();
    assert!(good, "well-formed page decodes");
    kani::cover!(levels[0] == 0 && levels[1] == 1);
    let (out_data, out_validity) = out.data_and_validity_mut();
    let data = ok(PhysicalI32::get_addressable(out_data)).slice;
    let mut k = 0usize; // next stored value
    let mut i = 0;
    while i < 3 {
        if levels[i] == 1 {
            assert!(out_validity.is_valid(1 + i), "defined row is not NULL");
            assert!(data[1 + i] == vals[k], "k-th defined row receives the k-th stored value");
            k += 1;
        } else {
            assert!(!out_validity.is_valid(1 + i), "row below the max definition level is NULL");
        }
        i += 1;
    }
    assert!(out_validity.is_valid(0), "rows outside [offset, offset+count) are untouched");
    assert!(dec.buffer.remaining() == 12 - 4 * k, "exactly the defined values are consumed");
    core::mem::forget(out);
}

// @h name=c19_plain_truncated_i32 props=C19 tier=quick
/// A PLAIN INT32 page whose header announces more values than its bytes hold (3 values, 8 or
/// fewer bytes): the decoder returns an error or rows, and never reads past the page buffer.
#[kani::proof]
#[kani::unwind(6)]
#[kani::stub(alloc::fmt::format, crate::kani_verif_support::stub_format)]
#[kani::stub(std::backtrace::Backtrace::capture, crate::kani_verif_support::stub_backtrace)]
#[kani::stub(crate::column::value_reader::ReaderErrorState::set_error_fn, crate::column::value_reader::kani_verif_support_reader::stub_set_error_flag)]
fn c19_plain_truncated_i32() {
    let bytes: [u8; 10] = kani::any();
    let len: usize = kani::any();
    kani::assume(len <= 10);
    let mut out = ok(Array::new(&DefaultBufferManager, DataType::int32(), 4));
    let mut dec = PlainDecoder { buffer: ReadCursor::from_slice(&bytes[..len]), value_reader: PlainInt32ValueReader::default() };
    let good = is_ok_forget(dec.read_plain(Definitions::NoDefinitions, &mut out, 0, 3)) && !error_reported();
    kani::cover!(!good);
    assert!(!good, "12 bytes are needed for 3 INT32 values: a shorter page is an error");
    core::mem::forget(out);
}
