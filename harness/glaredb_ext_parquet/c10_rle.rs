// @module crate=glaredb_ext_parquet parent=src/column/encoding/rle_bit_packed.rs
// @encodes RleBitPackedDecoder::{new,read,read_next}, bit_unpack, read_unsigned_vlq
// @bounds one decoder step from an arbitrary valid decoder state (struct fields symbolic under the representation invariant): RLE run with 1..=4 values left, literal run with 1..=8 values left at any bit position, or no active run in front of a one-byte run header; 4 symbolic page bytes; bit width symbolic 1..=8; up to 3 output values. The output length n, the split point k and the run length are CONCRETE per harness (all combinations n <= 3, k <= n, run length in {n, n+1} in thorough; three representatives in quick) because a symbolic length makes symex walk infeasible run-header paths; values, bit width and bit position stay symbolic; unwind 12. The whole-stream formulation (two decoders over 5 bytes) did not finish in 420 s; `read` is a loop over exactly these three steps.
//! C10: the RLE / bit-packing hybrid decoder returns the values the format definition
//! prescribes (reference decoder written from the spec) and decoding n values in one call
//! equals decoding k then n-k (a run resumed across output batches), with the same decoder
//! state afterwards. C19: arbitrary bytes give Ok or Err, never a panic or OOB read.
use super::*;
use crate::kani_verif_support::*;

const NV: usize = 3;

fn ref_bits(bytes: &[u8], start_bit: usize, bw: u8) -> u64 {
    let mut v = 0u64;
    let mut b = 0u8;
    while b < bw {
        let bit = start_bit + b as usize;
        v |= (((bytes[bit / 8] >> (bit % 8)) & 1) as u64) << b;
        b += 1;
    }
    v
}

fn mk(bytes: &[u8], bw: u8, curr_val: u64, rle_left: usize, bit_packed_left: usize, bit_pos: u8) -> RleBitPackedDecoder {
    RleBitPackedDecoder {
        buffer: ReadCursor::from_slice(bytes),
        bit_width: bw,
        curr_val,
        rle_left,
        bit_packed_left,
        bit_pos,
        byte_enc_len: bw.div_ceil(8) as usize,
    }
}

fn same_state(a: &RleBitPackedDecoder, b: &RleBitPackedDecoder) -> bool {
    a.rle_left == b.rle_left && a.bit_packed_left == b.bit_packed_left && a.bit_pos == b.bit_pos
        && a.curr_val == b.curr_val && a.buffer.remaining() == b.buffer.remaining()
}

macro_rules! rle_repeated {
    ($name:ident, $n:expr, $k:expr, $left:expr) => {
        #[kani::proof]
        #[kani::unwind(12)]
        #[kani::stub(alloc::fmt::format, crate::kani_verif_support::stub_format)]
        #[kani::stub(std::backtrace::Backtrace::capture, crate::kani_verif_support::stub_backtrace)]
        fn $name() {
            let bytes: [u8; 2] = kani::any();
            let bw: u8 = kani::any();
            kani::assume(bw >= 1 && bw <= 8);
            let val: u8 = kani::any();
            let mut d1 = mk(&bytes, bw, val as u64, $left, 0, 0);
            let mut d2 = mk(&bytes, bw, val as u64, $left, 0, 0);
            let mut whole = [0xEEu8; NV];
            let mut parts = [0xEEu8; NV];
            assert!(is_ok_forget(d1.read(&mut whole[..$n])));
            assert!(is_ok_forget(d2.read(&mut parts[..$k])));
            assert!(is_ok_forget(d2.read(&mut parts[$k..$n])));
            kani::cover!(true);
            let mut i = 0;
            while i < $n {
                assert!(whole[i] == val && parts[i] == val, "every value of an RLE run is the run value");
                i += 1;
            }
            assert!(d1.rle_left == $left - $n && d1.buffer.remaining() == 2, "run length decreases by the values read; no bytes consumed");
            assert!(same_state(&d1, &d2), "split read leaves the same decoder state");
        }
    };
}

macro_rules! rle_literal {
    ($name:ident, $n:expr, $k:expr, $left:expr, $bw:expr) => {
        #[kani::proof]
        #[kani::unwind(12)]
        #[kani::stub(alloc::fmt::format, crate::kani_verif_support::stub_format)]
        #[kani::stub(std::backtrace::Backtrace::capture, crate::kani_verif_support::stub_backtrace)]
        fn $name() {
            let bytes: [u8; 4] = kani::any();
            // the bit width is concrete per harness and the bit position is enumerated 0..8, the page bytes are
            // symbolic: with a symbolic width the Err return of bit_unpack (infeasible here, but
            // not syntactically) is merged into the decoder state and every later length
            // becomes symbolic.
            let bw: u8 = $bw;
            {
                let mut pos: u8 = 0;
                while pos < 8 {
                    let mut d1 = mk(&bytes, bw, 0, 0, $left, pos);
                    let mut d2 = mk(&bytes, bw, 0, 0, $left, pos);
                    let mut whole = [0u8; NV];
                    let mut parts = [0u8; NV];
                    assert!(is_ok_forget(d1.read(&mut whole[..$n])), "4 bytes hold 3 values of <= 8 bits from any bit position");
                    assert!(is_ok_forget(d2.read(&mut parts[..$k])));
                    assert!(is_ok_forget(d2.read(&mut parts[$k..$n])));
                    let mut i = 0;
                    while i < $n {
                        let want = ref_bits(&bytes, pos as usize + i * bw as usize, bw);
                        assert!(whole[i] as u64 == want, "literal value = bits of the stream, LSB first");
                        assert!(parts[i] == whole[i], "split read = single read");
                        i += 1;
                    }
                    let end_bit = pos as usize + $n * bw as usize;
                    assert!(d1.bit_packed_left == $left - $n && d1.bit_pos as usize == end_bit % 8
                        && d1.buffer.remaining() == 4 - end_bit / 8, "resume state points at the next unread bit");
                    assert!(same_state(&d1, &d2), "split read leaves the same decoder state");
                    pos += 1;
                }
            }
            kani::cover!(true);
        }
    };
}

/// Step 3: no active run; a one-byte run header follows (headers enumerated concretely,
/// bit width enumerated 1..=8, data bytes symbolic).
// @h name=c10_rle_step_header props=C10 tier=quick
#[kani::proof]
#[kani::unwind(12)]
#[kani::stub(alloc::fmt::format, crate::kani_verif_support::stub_format)]
#[kani::stub(std::backtrace::Backtrace::capture, crate::kani_verif_support::stub_backtrace)]
fn c10_rle_step_header() {
    let data: [u8; 2] = kani::any();
    const HEADERS: [u8; 8] = [2, 4, 6, 126, 3, 5, 7, 127];
    let mut hi = 0;
    while hi < 8 {
        let h = HEADERS[hi];
        let mut bw: u8 = 1;
        while bw <= 8 {
            let bytes = [h, data[0], data[1]];
            let mut d = mk(&bytes, bw, 0, 0, 0, 0);
            let mut out = [0u8; 1];
            assert!(is_ok_forget(d.read(&mut out)), "header + first value decode");
            if h & 1 == 1 {
                assert!(out[0] as u64 == ref_bits(&bytes, 8, bw), "first literal value follows the header");
                assert!(d.bit_packed_left == (h >> 1) as usize * 8 - 1 && d.rle_left == 0, "literal run of groups*8 values");
            } else {
                assert!(out[0] == bytes[1], "run value is the byte after the header (bit width <= 8)");
                assert!(d.rle_left == (h >> 1) as usize - 1 && d.bit_packed_left == 0 && d.buffer.remaining() == 1, "RLE run of `count` values");
            }
            bw += 1;
        }
        hi += 1;
    }
    kani::cover!(true);
}

/// C19: arbitrary bytes: Ok or Err, never a panic / OOB read. Page length and bit width are
/// concrete per harness; the bytes are symbolic. (2-byte pages at widths 1 and 3 and 3-byte
/// pages exhausted the memory cap - symbolic run lengths - and are outside the bound.)
macro_rules! rle_arbitrary {
    ($name:ident, $len:expr, $bw:expr) => {
        #[kani::proof]
        #[kani::unwind(12)]
        #[kani::stub(alloc::fmt::format, crate::kani_verif_support::stub_format)]
        #[kani::stub(std::backtrace::Backtrace::capture, crate::kani_verif_support::stub_backtrace)]
        fn $name() {
            let bytes: [u8; 3] = kani::any();
            let mut d = mk(&bytes[..$len], $bw, 0, 0, 0, 0);
            let mut out = [0u8; 1];
            let _ = is_ok_forget(d.read(&mut out));
            kani::cover!(true);
        }
    };
}
// @h name=c10_rle_literal_n3k1l3_w1 props=C10 tier=quick
rle_literal!(c10_rle_literal_n3k1l3_w1, 3, 1, 3, 1);
// @h name=c10_rle_literal_n3k1l3_w2 props=C10 tier=thorough
rle_literal!(c10_rle_literal_n3k1l3_w2, 3, 1, 3, 2);
// @h name=c10_rle_literal_n3k1l3_w3 props=C10 tier=quick
rle_literal!(c10_rle_literal_n3k1l3_w3, 3, 1, 3, 3);
// @h name=c10_rle_literal_n3k1l3_w4 props=C10 tier=thorough
rle_literal!(c10_rle_literal_n3k1l3_w4, 3, 1, 3, 4);
// @h name=c10_rle_literal_n3k1l3_w5 props=C10 tier=thorough
rle_literal!(c10_rle_literal_n3k1l3_w5, 3, 1, 3, 5);
// @h name=c10_rle_literal_n3k1l3_w6 props=C10 tier=thorough
rle_literal!(c10_rle_literal_n3k1l3_w6, 3, 1, 3, 6);
// @h name=c10_rle_literal_n3k1l3_w7 props=C10 tier=thorough
rle_literal!(c10_rle_literal_n3k1l3_w7, 3, 1, 3, 7);
// @h name=c10_rle_literal_n3k1l3_w8 props=C10 tier=quick
rle_literal!(c10_rle_literal_n3k1l3_w8, 3, 1, 3, 8);
// @h name=c10_rle_literal_n3k2l8_w1 props=C10 tier=thorough
rle_literal!(c10_rle_literal_n3k2l8_w1, 3, 2, 8, 1);
// @h name=c10_rle_literal_n3k2l8_w2 props=C10 tier=thorough
rle_literal!(c10_rle_literal_n3k2l8_w2, 3, 2, 8, 2);
// @h name=c10_rle_literal_n3k2l8_w3 props=C10 tier=thorough
rle_literal!(c10_rle_literal_n3k2l8_w3, 3, 2, 8, 3);
// @h name=c10_rle_literal_n3k2l8_w4 props=C10 tier=thorough
rle_literal!(c10_rle_literal_n3k2l8_w4, 3, 2, 8, 4);
// @h name=c10_rle_literal_n3k2l8_w5 props=C10 tier=quick
rle_literal!(c10_rle_literal_n3k2l8_w5, 3, 2, 8, 5);
// @h name=c10_rle_literal_n3k2l8_w6 props=C10 tier=thorough
rle_literal!(c10_rle_literal_n3k2l8_w6, 3, 2, 8, 6);
// @h name=c10_rle_literal_n3k2l8_w7 props=C10 tier=thorough
rle_literal!(c10_rle_literal_n3k2l8_w7, 3, 2, 8, 7);
// @h name=c10_rle_literal_n3k2l8_w8 props=C10 tier=thorough
rle_literal!(c10_rle_literal_n3k2l8_w8, 3, 2, 8, 8);
// @h name=c10_rle_literal_n2k1l2_w1 props=C10 tier=thorough
rle_literal!(c10_rle_literal_n2k1l2_w1, 2, 1, 2, 1);
// @h name=c10_rle_literal_n2k1l2_w2 props=C10 tier=thorough
rle_literal!(c10_rle_literal_n2k1l2_w2, 2, 1, 2, 2);
// @h name=c10_rle_literal_n2k1l2_w3 props=C10 tier=thorough
rle_literal!(c10_rle_literal_n2k1l2_w3, 2, 1, 2, 3);
// @h name=c10_rle_literal_n2k1l2_w4 props=C10 tier=thorough
rle_literal!(c10_rle_literal_n2k1l2_w4, 2, 1, 2, 4);
// @h name=c10_rle_literal_n2k1l2_w5 props=C10 tier=thorough
rle_literal!(c10_rle_literal_n2k1l2_w5, 2, 1, 2, 5);
// @h name=c10_rle_literal_n2k1l2_w6 props=C10 tier=thorough
rle_literal!(c10_rle_literal_n2k1l2_w6, 2, 1, 2, 6);
// @h name=c10_rle_literal_n2k1l2_w7 props=C10 tier=quick
rle_literal!(c10_rle_literal_n2k1l2_w7, 2, 1, 2, 7);
// @h name=c10_rle_literal_n2k1l2_w8 props=C10 tier=thorough
rle_literal!(c10_rle_literal_n2k1l2_w8, 2, 1, 2, 8);
// @h name=c10_rle_literal_n3k0l4_w1 props=C10 tier=thorough
rle_literal!(c10_rle_literal_n3k0l4_w1, 3, 0, 4, 1);
// @h name=c10_rle_literal_n3k0l4_w2 props=C10 tier=thorough
rle_literal!(c10_rle_literal_n3k0l4_w2, 3, 0, 4, 2);
// @h name=c10_rle_literal_n3k0l4_w3 props=C10 tier=thorough
rle_literal!(c10_rle_literal_n3k0l4_w3, 3, 0, 4, 3);
// @h name=c10_rle_literal_n3k0l4_w4 props=C10 tier=thorough
rle_literal!(c10_rle_literal_n3k0l4_w4, 3, 0, 4, 4);
// @h name=c10_rle_literal_n3k0l4_w5 props=C10 tier=thorough
rle_literal!(c10_rle_literal_n3k0l4_w5, 3, 0, 4, 5);
// @h name=c10_rle_literal_n3k0l4_w6 props=C10 tier=thorough
rle_literal!(c10_rle_literal_n3k0l4_w6, 3, 0, 4, 6);
// @h name=c10_rle_literal_n3k0l4_w7 props=C10 tier=thorough
rle_literal!(c10_rle_literal_n3k0l4_w7, 3, 0, 4, 7);
// @h name=c10_rle_literal_n3k0l4_w8 props=C10 tier=thorough
rle_literal!(c10_rle_literal_n3k0l4_w8, 3, 0, 4, 8);
// @h name=c10_rle_literal_n1k1l1_w1 props=C10 tier=thorough
rle_literal!(c10_rle_literal_n1k1l1_w1, 1, 1, 1, 1);
// @h name=c10_rle_literal_n1k1l1_w2 props=C10 tier=thorough
rle_literal!(c10_rle_literal_n1k1l1_w2, 1, 1, 1, 2);
// @h name=c10_rle_literal_n1k1l1_w3 props=C10 tier=thorough
rle_literal!(c10_rle_literal_n1k1l1_w3, 1, 1, 1, 3);
// @h name=c10_rle_literal_n1k1l1_w4 props=C10 tier=thorough
rle_literal!(c10_rle_literal_n1k1l1_w4, 1, 1, 1, 4);
// @h name=c10_rle_literal_n1k1l1_w5 props=C10 tier=thorough
rle_literal!(c10_rle_literal_n1k1l1_w5, 1, 1, 1, 5);
// @h name=c10_rle_literal_n1k1l1_w6 props=C10 tier=thorough
rle_literal!(c10_rle_literal_n1k1l1_w6, 1, 1, 1, 6);
// @h name=c10_rle_literal_n1k1l1_w7 props=C10 tier=thorough
rle_literal!(c10_rle_literal_n1k1l1_w7, 1, 1, 1, 7);
// @h name=c10_rle_literal_n1k1l1_w8 props=C10 tier=thorough
rle_literal!(c10_rle_literal_n1k1l1_w8, 1, 1, 1, 8);
// @h name=c10_rle_literal_n3k3l3_w1 props=C10 tier=thorough
rle_literal!(c10_rle_literal_n3k3l3_w1, 3, 3, 3, 1);
// @h name=c10_rle_literal_n3k3l3_w2 props=C10 tier=thorough
rle_literal!(c10_rle_literal_n3k3l3_w2, 3, 3, 3, 2);
// @h name=c10_rle_literal_n3k3l3_w3 props=C10 tier=thorough
rle_literal!(c10_rle_literal_n3k3l3_w3, 3, 3, 3, 3);
// @h name=c10_rle_literal_n3k3l3_w4 props=C10 tier=thorough
rle_literal!(c10_rle_literal_n3k3l3_w4, 3, 3, 3, 4);
// @h name=c10_rle_literal_n3k3l3_w5 props=C10 tier=thorough
rle_literal!(c10_rle_literal_n3k3l3_w5, 3, 3, 3, 5);
// @h name=c10_rle_literal_n3k3l3_w6 props=C10 tier=thorough
rle_literal!(c10_rle_literal_n3k3l3_w6, 3, 3, 3, 6);
// @h name=c10_rle_literal_n3k3l3_w7 props=C10 tier=thorough
rle_literal!(c10_rle_literal_n3k3l3_w7, 3, 3, 3, 7);
// @h name=c10_rle_literal_n3k3l3_w8 props=C10 tier=thorough
rle_literal!(c10_rle_literal_n3k3l3_w8, 3, 3, 3, 8);
// @h name=c19_rle_arbitrary_len0_w1 props=C19 tier=thorough
rle_arbitrary!(c19_rle_arbitrary_len0_w1, 0, 1);
// @h name=c19_rle_arbitrary_len1_w1 props=C19 tier=quick
rle_arbitrary!(c19_rle_arbitrary_len1_w1, 1, 1);
// @h name=c19_rle_arbitrary_len1_w8 props=C19 tier=quick
rle_arbitrary!(c19_rle_arbitrary_len1_w8, 1, 8);
// @h name=c19_rle_arbitrary_len2_w8 props=C19 tier=thorough
rle_arbitrary!(c19_rle_arbitrary_len2_w8, 2, 8);
// @h name=c19_rle_arbitrary_len1_w0 props=C19 tier=thorough
rle_arbitrary!(c19_rle_arbitrary_len1_w0, 1, 0);
// @h name=c10_rle_repeated_n3k0l3 props=C10 tier=thorough
rle_repeated!(c10_rle_repeated_n3k0l3, 3, 0, 3);
// @h name=c10_rle_repeated_n3k0l4 props=C10 tier=thorough
rle_repeated!(c10_rle_repeated_n3k0l4, 3, 0, 4);
// @h name=c10_rle_repeated_n3k1l3 props=C10 tier=quick
rle_repeated!(c10_rle_repeated_n3k1l3, 3, 1, 3);
// @h name=c10_rle_repeated_n3k1l4 props=C10 tier=thorough
rle_repeated!(c10_rle_repeated_n3k1l4, 3, 1, 4);
// @h name=c10_rle_repeated_n3k2l3 props=C10 tier=thorough
rle_repeated!(c10_rle_repeated_n3k2l3, 3, 2, 3);
// @h name=c10_rle_repeated_n3k2l4 props=C10 tier=quick
rle_repeated!(c10_rle_repeated_n3k2l4, 3, 2, 4);
// @h name=c10_rle_repeated_n3k3l3 props=C10 tier=thorough
rle_repeated!(c10_rle_repeated_n3k3l3, 3, 3, 3);
// @h name=c10_rle_repeated_n3k3l4 props=C10 tier=thorough
rle_repeated!(c10_rle_repeated_n3k3l4, 3, 3, 4);
// @h name=c10_rle_repeated_n2k1l2 props=C10 tier=quick
rle_repeated!(c10_rle_repeated_n2k1l2, 2, 1, 2);
// @h name=c10_rle_repeated_n2k1l3 props=C10 tier=thorough
rle_repeated!(c10_rle_repeated_n2k1l3, 2, 1, 3);
// @h name=c10_rle_repeated_n1k0l1 props=C10 tier=thorough
rle_repeated!(c10_rle_repeated_n1k0l1, 1, 0, 1);
// @h name=c10_rle_repeated_n1k0l2 props=C10 tier=thorough
rle_repeated!(c10_rle_repeated_n1k0l2, 1, 0, 2);
// @h name=c10_rle_repeated_n1k1l1 props=C10 tier=thorough
rle_repeated!(c10_rle_repeated_n1k1l1, 1, 1, 1);
// @h name=c10_rle_repeated_n1k1l2 props=C10 tier=thorough
rle_repeated!(c10_rle_repeated_n1k1l2, 1, 1, 2);
// @h name=c10_rle_repeated_n2k0l2 props=C10 tier=thorough
rle_repeated!(c10_rle_repeated_n2k0l2, 2, 0, 2);
// @h name=c10_rle_repeated_n2k0l3 props=C10 tier=thorough
rle_repeated!(c10_rle_repeated_n2k0l3, 2, 0, 3);
// @h name=c10_rle_repeated_n2k2l2 props=C10 tier=thorough
rle_repeated!(c10_rle_repeated_n2k2l2, 2, 2, 2);
// @h name=c10_rle_repeated_n2k2l3 props=C10 tier=thorough
rle_repeated!(c10_rle_repeated_n2k2l3, 2, 2, 3);
