// @module crate=glaredb_ext_parquet parent=src/column/encoding/rle_bit_packed.rs
// @encodes RleBoolDecoder::{new,read}, RealSizedBoolReader::read_next_unchecked, RleBitPackedDecoder::{read,read_next}, PlainDecoder::read_plain
// @bounds a BOOLEAN page holding one RLE run of 2 values (header byte 0x04) with a symbolic value byte, read into a 2-row Boolean array; unwind 6
// @stubs alloc::fmt::format, Backtrace::capture, ReaderErrorState::set_error_fn -> flag (real pair checked by c19_reader_error_state)
//! C10: an RLE run of the value 0 / 1 decodes to false / true rows. C19: a corrupt run value
//! (2..=255, only one bit is meaningful at bit width 1) gives an error or rows holding a valid
//! `bool` (storage byte 0 or 1), never an invalid `bool` (undefined behaviour in every later use).
use glaredb_core::arrays::array::physical_type::{PhysicalBool, ScalarStorage};
use glaredb_core::arrays::datatype::DataType;
use glaredb_core::buffer::buffer_manager::DefaultBufferManager;

use super::*;
use crate::column::value_reader::kani_verif_support_reader::error_reported;
use crate::kani_verif_support::*;

// @h name=c19_rle_bool_run_value props=C19,C10 tier=quick
#[kani::proof]
#[kani::unwind(6)]
#[kani::stub(alloc::fmt::format, crate::kani_verif_support::stub_format)]
#[kani::stub(std::backtrace::Backtrace::capture, crate::kani_verif_support::stub_backtrace)]
#[kani::stub(crate::column::value_reader::ReaderErrorState::set_error_fn, crate::column::value_reader::kani_verif_support_reader::stub_set_error_flag)]
fn c19_rle_bool_run_value() {
    let v: u8 = kani::any();
    let page = [0x04u8, v];
    let mut out = ok(Array::new(&DefaultBufferManager, DataType::boolean(), 2));
    let mut dec = RleBoolDecoder::new(ReadCursor::from_slice(&page));
    let good = is_ok_forget(dec.read(Definitions::NoDefinitions, &mut out, 0, 2)) && !error_reported();
    kani::cover!(good && v == 1);
    if v <= 1 {
        assert!(good, "a run of 0 or 1 is a valid BOOLEAN run");
    }
    if good {
        let (out_data, _) = out.data_and_validity_mut();
        let data = ok(PhysicalBool::get_addressable(out_data)).slice;
        let raw0 = unsafe { *(data.as_ptr() as *const u8) };
        let raw1 = unsafe { *(data.as_ptr() as *const u8).add(1) };
        assert!(raw0 <= 1 && raw1 <= 1, "decoded BOOLEAN rows hold a valid bool (storage byte 0 or 1)");
        if v <= 1 {
            assert!(raw0 == v && raw1 == v, "run of v decodes to v, v");
        }
    }
    core::mem::forget(out);
    core::mem::forget(dec);
}
