// @module crate=glaredb_ext_parquet parent=src/column/row_group_pruner.rs
// @encodes PrimitiveRowGroupPruner::<PlainTypeI32,U>::should_prune for U in {UnwrapI32, UnwrapI8, UnwrapI16, UnwrapU8, UnwrapU16, UnwrapU32}, PrimitiveRowGroupPruner::<PlainTypeI64,U>::should_prune for U in {UnwrapI64, UnwrapU64}, ScalarValueUnwrap::try_unwrap
// @bounds statistics (min, max, exact flags, deprecated flag), the stored value and the filter constant are symbolic at full width; one ConstantEq filter; unwind 4
//! C11: pruning soundness. For every row group whose statistics are correct for the values
//! it stores, and every `column = c` filter: if the pruner decides to skip the row group then
//! no stored value equals c. "Correct statistics" means min <= v <= max in the column's
//! logical sort order for min_value/max_value, and in SIGNED physical order for the
//! deprecated min/max fields (that is what old writers produced, whatever the logical type).
use glaredb_core::arrays::scalar::unwrap::{UnwrapI8, UnwrapI16, UnwrapI32, UnwrapI64, UnwrapU8, UnwrapU16, UnwrapU32, UnwrapU64};

use super::*;
use crate::kani_verif_support::*;

macro_rules! prune_sound {
    ($name:ident, $plain:ty, $phys:ty, $unwrap:ty, $logical:ty, $variant:ident, $deprecated:expr) => {
        #[kani::proof]
        #[kani::unwind(4)]
        #[kani::stub(alloc::fmt::format, crate::kani_verif_support::stub_format)]
        #[kani::stub(std::backtrace::Backtrace::capture, crate::kani_verif_support::stub_backtrace)]
        fn $name() {
            let min: $phys = kani::any();
            let max: $phys = kani::any();
            let v: $phys = kani::any(); // a value stored in the row group (physical representation)
            let c: $logical = kani::any(); // the filter constant
            let deprecated: bool = $deprecated;
            // the stored value is a valid member of the logical type (e.g. an INT32 holding a UINT_8 is 0..=255)
            kani::assume((v as $logical) as $phys == v || core::mem::size_of::<$logical>() == core::mem::size_of::<$phys>());
            kani::assume(((min as $logical) as $phys == min && (max as $logical) as $phys == max)
                || core::mem::size_of::<$logical>() == core::mem::size_of::<$phys>());
            if deprecated {
                kani::assume(min <= v && v <= max); // signed physical order
            } else {
                kani::assume((min as $logical) <= (v as $logical) && (v as $logical) <= (max as $logical));
            }
            let stats = ValueStatistics::<$phys> {
                min: Some(min),
                max: Some(max),
                distinct_count: None,
                null_count: 0,
                is_max_value_exact: kani::any(),
                is_min_value_exact: kani::any(),
                is_min_max_deprecated: deprecated,
                is_min_max_backwards_compatible: deprecated,
            };
            let pruner = PrimitiveRowGroupPruner::<$plain, $unwrap> {
                const_eq_filters: vec![ScalarValue::$variant(c)],
                _t: PhantomCovariant::new(),
                _u: PhantomCovariant::new(),
            };
            let r = pruner.should_prune(&stats);
            let prune = match &r { Ok(b) => *b, Err(_) => false };
            core::mem::forget(r);
            kani::cover!(prune);
            kani::cover!(!prune && stats.is_max_value_exact && stats.is_min_value_exact);
            assert!(!prune || (v as $logical) != c, "a pruned row group contains no row equal to the filter constant");
            core::mem::forget(pruner);
        }
    };
}

// @h name=c11_prune_i32_as_i32 props=C11 tier=quick
prune_sound!(c11_prune_i32_as_i32, PlainTypeI32, i32, UnwrapI32, i32, Int32, false);
// @h name=c11_prune_i32_as_i8 props=C11 tier=quick
prune_sound!(c11_prune_i32_as_i8, PlainTypeI32, i32, UnwrapI8, i8, Int8, false);
// @h name=c11_prune_i32_as_i16 props=C11 tier=thorough
prune_sound!(c11_prune_i32_as_i16, PlainTypeI32, i32, UnwrapI16, i16, Int16, false);
// @h name=c11_prune_i32_as_u8 props=C11 tier=quick
prune_sound!(c11_prune_i32_as_u8, PlainTypeI32, i32, UnwrapU8, u8, UInt8, false);
// @h name=c11_prune_i32_as_u16 props=C11 tier=thorough
prune_sound!(c11_prune_i32_as_u16, PlainTypeI32, i32, UnwrapU16, u16, UInt16, false);
// @h name=c11_prune_i32_as_u32 props=C11 tier=quick
prune_sound!(c11_prune_i32_as_u32, PlainTypeI32, i32, UnwrapU32, u32, UInt32, false);
// @h name=c11_prune_i64_as_i64 props=C11 tier=quick
prune_sound!(c11_prune_i64_as_i64, PlainTypeI64, i64, UnwrapI64, i64, Int64, false);
// @h name=c11_prune_i64_as_u64 props=C11 tier=quick
prune_sound!(c11_prune_i64_as_u64, PlainTypeI64, i64, UnwrapU64, u64, UInt64, false);
// deprecated (signed-order) statistics
// @h name=c11_prune_i32_as_u32_deprecated_stats props=C11 tier=quick
prune_sound!(c11_prune_i32_as_u32_deprecated_stats, PlainTypeI32, i32, UnwrapU32, u32, UInt32, true);
// @h name=c11_prune_i64_as_u64_deprecated_stats props=C11 tier=quick
prune_sound!(c11_prune_i64_as_u64_deprecated_stats, PlainTypeI64, i64, UnwrapU64, u64, UInt64, true);
// @h name=c11_prune_i32_as_i32_deprecated_stats props=C11 tier=quick
prune_sound!(c11_prune_i32_as_i32_deprecated_stats, PlainTypeI32, i32, UnwrapI32, i32, Int32, true);
