// @module crate=glaredb_ext_parquet parent=src/column/encoding/delta_length_byte_array.rs
// @encodes DeltaLengthByteArrayDecoder::read, ReadCursor::{read_bytes,read_bytes_unchecked}, BinaryViewAddressableMut::put (StringViewBuffer::push_bytes_as_row)
// @bounds decoder state constructed directly: 2 decoded lengths (concrete per harness; only states the constructor's validation admits, i.e. lengths summing to the 3 data bytes: (5,-2), (-1,4), (4,-1), (i32::MAX, i32::MIN+4) and the three valid splits), 3 symbolic string bytes, 2 rows read into a Binary array without definition levels; unwind 8
//! C19: the lengths of a DELTA_LENGTH_BYTE_ARRAY page come from the file. Whatever they are
//! (negative, larger than the data, summing to the data size only through a negative entry),
//! reading rows gives an error or rows and never reads outside the page. C10: for lengths that
//! do describe the data, row i is the i-th slice.
use glaredb_core::arrays::array::physical_type::{Addressable, ScalarStorage};
use glaredb_core::arrays::datatype::DataType;

use super::*;
use crate::kani_verif_support::*;

fn run(l0: i32, l1: i32, data: &[u8; 3]) -> Option<(usize, usize)> {
    run_n(l0, l1, data, 2)
}

fn run_n(l0: i32, l1: i32, data: &[u8; 3], rows: usize) -> Option<(usize, usize)> {
    let mut lengths = ok(unsafe { DbVec::<i32>::new_uninit(&DefaultBufferManager, 2) });
    lengths.as_slice_mut()[0] = l0;
    lengths.as_slice_mut()[1] = l1;
    let mut dec = DeltaLengthByteArrayDecoder { verify_utf8: false, curr_len_idx: 0, lengths, cursor: ReadCursor::from_slice(data) };
    let mut out = ok(Array::new(&DefaultBufferManager, DataType::binary(), 3));
    let good = is_ok_forget(dec.read(Definitions::NoDefinitions, &mut out, 0, rows));
    let r = if good {
        let (out_data, _) = out.data_and_validity_mut();
        let a = ok(PhysicalBinary::get_addressable(out_data));
        let r0 = a.get(0).map(|b| b.len()).unwrap_or(usize::MAX);
        let r1 = a.get(1).map(|b| b.len()).unwrap_or(usize::MAX);
        Some((r0, r1))
    } else {
        None
    };
    core::mem::forget(out);
    core::mem::forget(dec);
    r
}

/// Lengths are CONCRETE per harness (a symbolic slice length makes the byte copy into the
/// string heap unbounded for CBMC: out of memory at 10 GB); the page bytes are symbolic.
macro_rules! dlba_bad {
    ($name:ident, $l0:expr, $l1:expr) => {
        #[kani::proof]
        #[kani::unwind(8)]
        #[kani::stub(alloc::fmt::format, crate::kani_verif_support::stub_format)]
        #[kani::stub(std::backtrace::Backtrace::capture, crate::kani_verif_support::stub_backtrace)]
        fn $name() {
            let data: [u8; 3] = kani::any();
            let r = run($l0, $l1, &data);
            kani::cover!(r.is_none());
            assert!(r.is_none(), "lengths that do not fit the page data are an error");
        }
    };
}
// sum equals the 3 data bytes, but only through a negative entry (passes a sum-only validation)
// @h name=c19_dlba_len_5_m2 props=C19 tier=quick
dlba_bad!(c19_dlba_len_5_m2, 5, -2);
// @h name=c19_dlba_len_m1_4 props=C19 tier=thorough
dlba_bad!(c19_dlba_len_m1_4, -1, 4);
// @h name=c19_dlba_len_4_m1 props=C19 tier=quick
dlba_bad!(c19_dlba_len_4_m1, 4, -1);
// @h name=c19_dlba_len_max_min4 props=C19 tier=thorough
dlba_bad!(c19_dlba_len_max_min4, i32::MAX, i32::MIN + 4);

/// The page header announces 3 rows, the length stream holds 2 lengths.
// @h name=c19_dlba_more_rows_than_lengths props=C19 tier=quick
#[kani::proof]
#[kani::unwind(8)]
#[kani::stub(alloc::fmt::format, crate::kani_verif_support::stub_format)]
#[kani::stub(std::backtrace::Backtrace::capture, crate::kani_verif_support::stub_backtrace)]
fn c19_dlba_more_rows_than_lengths() {
    let data: [u8; 3] = kani::any();
    let r = run_n(1, 2, &data, 3);
    kani::cover!(r.is_none());
    assert!(r.is_none(), "more rows than decoded lengths is an error");
}

macro_rules! dlba_rows {
    ($name:ident, $l0:expr) => {
        #[kani::proof]
        #[kani::unwind(8)]
        #[kani::stub(alloc::fmt::format, crate::kani_verif_support::stub_format)]
        #[kani::stub(std::backtrace::Backtrace::capture, crate::kani_verif_support::stub_backtrace)]
        fn $name() {
            let data: [u8; 3] = kani::any();
            let r = run($l0, 3 - $l0, &data);
            kani::cover!(r.is_some());
            assert!(r == Some(($l0 as usize, (3 - $l0) as usize)), "row i has the i-th decoded length");
        }
    };
}
// @h name=c10_dlba_rows_1_2 props=C10 tier=quick
dlba_rows!(c10_dlba_rows_1_2, 1);
// @h name=c10_dlba_rows_0_3 props=C10 tier=thorough
dlba_rows!(c10_dlba_rows_0_3, 0);
// @h name=c10_dlba_rows_3_0 props=C10 tier=thorough
dlba_rows!(c10_dlba_rows_3_0, 3);
