// @module crate=glaredb_ext_parquet parent=src/lib.rs
//! Shared stubs and helpers for the glaredb_ext_parquet harnesses (DESIGN.md §2.2).
#![allow(dead_code)]

pub fn stub_format(_args: core::fmt::Arguments<'_>) -> String {
    String::new()
}
pub fn stub_backtrace() -> std::backtrace::Backtrace {
    std::backtrace::Backtrace::disabled()
}
pub fn ok<T>(r: glaredb_error::Result<T>) -> T {
    match r {
        Ok(v) => v,
        Err(e) => {
            core::mem::forget(e);
            panic!("unexpected Err")
        }
    }
}
pub fn is_ok_forget<T>(r: glaredb_error::Result<T>) -> bool {
    let good = r.is_ok();
    core::mem::forget(r);
    good
}
