// @module crate=glaredb_ext_parquet parent=src/column/value_reader/mod.rs
// @encodes ReaderErrorState::set_error_fn, ReaderErrorState::into_result
//! Stub for `ReaderErrorState::set_error_fn` (needs the private field) and the leaf harness
//! that ties the stub to the real implementation.
use super::*;

/// Set by `stub_set_error_flag`.
pub static mut ERROR_REPORTED: bool = false;

/// Records that a value reader reported a failure, without constructing the `DbError`.
///
/// Why: with the real `set_error_fn` the `Option<DbError>` in the error state is possibly `Some`
/// on every later loop iteration, and the drop glue / `Box<dyn Error>` vtable calls of a
/// possibly-`Some` `DbError` make CBMC expand every signature-compatible function: the PLAIN
/// harnesses went from 40 s to no verdict in 900 s. `read_plain` ends in
/// `error_state.into_result()`, so "flag set" is equivalent to "read_plain returns Err" given
/// `c19_reader_error_state` below, which runs the real pair.
pub fn stub_set_error_flag<F>(_this: &mut ReaderErrorState, error_fn: F)
where
    F: FnOnce() -> DbError,
{
    unsafe { ERROR_REPORTED = true }
    core::mem::forget(error_fn);
}

pub fn error_reported() -> bool {
    unsafe { ERROR_REPORTED }
}

// @h name=c19_reader_error_state props=C19,C10 tier=quick
#[kani::proof]
#[kani::unwind(3)]
#[kani::stub(alloc::fmt::format, crate::kani_verif_support::stub_format)]
#[kani::stub(std::backtrace::Backtrace::capture, crate::kani_verif_support::stub_backtrace)]
fn c19_reader_error_state() {
    let report: bool = kani::any();
    let mut st = ReaderErrorState::default();
    if report {
        st.set_error_fn(|| DbError::new("x"));
    }
    let r = st.into_result();
    let is_err = r.is_err();
    core::mem::forget(r);
    kani::cover!(is_err);
    kani::cover!(!is_err);
    assert!(is_err == report, "Err exactly when a failure was reported");
}
