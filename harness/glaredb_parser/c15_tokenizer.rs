// @module crate=glaredb_parser parent=src/tokens.rs
// @encodes Tokenizer::{new,tokenize,next_token} and the scanning helpers it calls
// @bounds statement text: every valid UTF-8 string of at most 3 bytes (symbolic bytes, validity assumed through str::from_utf8); unwind 8
//! C15: the tokenizer turns every statement text into tokens or an error: no panic, no
//! slicing off a char boundary, termination within the bound; token start offsets lie inside
//! the text and never decrease.
use super::*;

macro_rules! tokenizer_total {
    ($name:ident, $n:expr) => {
        #[kani::proof]
        #[kani::unwind(8)]
        #[kani::stub(alloc::fmt::format, crate::kani_verif_support::stub_format)]
        #[kani::stub(std::backtrace::Backtrace::capture, crate::kani_verif_support::stub_backtrace)]
        fn $name() {
            let bytes: [u8; $n] = kani::any();
            let text = match core::str::from_utf8(&bytes) {
                Ok(t) => t,
                Err(_) => return,
            };
            kani::cover!(true);
            let mut toks = Vec::new();
            let r = Tokenizer::new(text).tokenize(&mut toks);
            let good = r.is_ok();
            core::mem::forget(r);
            if good {
                let mut prev = 0usize;
                let mut i = 0;
                while i < toks.len() && i < $n + 1 {
                    assert!(toks[i].start_idx <= $n && toks[i].start_idx >= prev, "token offsets are inside the text and non-decreasing");
                    prev = toks[i].start_idx;
                    i += 1;
                }
            }
            core::mem::forget(toks);
        }
    };
}
// @h name=c15_tokenizer_total_2 props=C15 tier=thorough
tokenizer_total!(c15_tokenizer_total_2, 2);
// @h name=c15_tokenizer_total_3 props=C15 tier=thorough
tokenizer_total!(c15_tokenizer_total_3, 3);
// @h name=c15_tokenizer_total_1 props=C15 tier=thorough
tokenizer_total!(c15_tokenizer_total_1, 1);
