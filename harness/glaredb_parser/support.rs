// @module crate=glaredb_parser parent=src/lib.rs
//! Shared stubs for the glaredb_parser harnesses.
#![allow(dead_code)]
pub fn stub_format(_args: core::fmt::Arguments<'_>) -> String {
    String::new()
}
pub fn stub_backtrace() -> std::backtrace::Backtrace {
    std::backtrace::Backtrace::disabled()
}
