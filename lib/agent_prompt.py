#!/usr/bin/env python3
"""Prints the prompt handed to a fresh sub-agent for seeding a property-breaking change.
Only the property text is given (nothing from /verif)."""
import json, sys
pid, n = sys.argv[1], sys.argv[2]
hint = sys.argv[3] if len(sys.argv) > 3 else ""
for l in open('/verif/properties.jsonl'):
    p = json.loads(l)
    if p['id'] == pid:
        break
wt = "/tmp/mut-%s-%s" % (pid, n)
print(f"""You are helping test a verification framework for GlareDB (an embeddable SQL analytics engine written in Rust). Your job is to act as a *fault seeder*: produce a realistic code change to GlareDB that BREAKS the following semantic property, while still compiling and still passing the project's existing test suite.

PROPERTY ({p['id']}): {p['title']}
Statement: {p['statement']}
Quantified over: {p['quantifier']['text']}

Rules:
1. Work ONLY in your own scratch git worktree. Create it with:
     git -C /repo worktree add --detach {wt} HEAD
   Never modify /repo itself, and never read or touch /verif. Use CARGO_TARGET_DIR={wt}/target for every cargo command (to save build time you may first `cp -r /repo/target {wt}/target`). The sandbox is offline: always pass --offline to cargo (or set CARGO_NET_OFFLINE=true). There are 16 cores shared with other jobs; use `-j 6`.
2. The change must be the kind of mistake a developer could plausibly make (an off-by-one, a wrong comparison operator, a dropped boundary case, a wrong constant/shift, a missed carry-over of state between batches/pages/calls, a wrong rounding rule, a missing check, two sites that each look fine alone, ...), in the non-test source of the crates under {wt}/crates. Keep it small (typically 1-15 changed lines). It must NOT be something ordinary use would expose at once: it should need something specific to manifest - an unusual input value or boundary, a particular sequence of operations, a particular split of data across batches/pages/partitions, a particular interleaving, etc. {hint}
3. The change must compile, and the existing tests must still pass with it. At minimum run the unit tests of every crate you touched (e.g. `cargo test --offline -p glaredb_core --lib -j 6`) and the SQL logic tests (`cargo test --offline -p glaredb_slt -j 6` and the slt-driven tests in /repo/test_bin, e.g. `cargo test --offline -p test_bin -j 6` if that package name exists - check Cargo.toml files); if a test fails because of your change, pick a different change.
4. Write a demonstration: a Rust unit/integration test (preferred: a `#[test]` placed in a new file or appended to an existing test module, or an .slt / SQL script run through the CLI) that FAILS with your change applied and PASSES on the unmodified code. The demonstration must go through real GlareDB code (not a re-implementation).
5. Deliver, in the directory /tmp/mut-out/{pid}-{n}/ (create it):
     patch.diff   - `git diff` of the source change ONLY (no tests), applicable with `git apply` at the repo root
     demo.diff    - `git diff` adding the demonstration test ONLY (or demo.sql / demo.sh if not a Rust test)
     NOTES.md     - which function/behaviour you changed, why it breaks the property, exactly what is needed for it to manifest, the exact commands you ran (tests that still pass; the demo failing with the patch and passing without it) and their outcome.
6. Leave the worktree in place with the patch applied (do not delete it); do not commit anything.

Be efficient: read the relevant code first, choose the mutation, then build and test. Report back a short summary (what you changed, how it manifests, and test results).""")
