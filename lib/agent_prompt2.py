#!/usr/bin/env python3
import json, sys
pid, n, hint = sys.argv[1], sys.argv[2], (sys.argv[3] if len(sys.argv) > 3 else "")
for l in open('/verif/properties.jsonl'):
    p = json.loads(l)
    if p['id'] == pid: break
wt = "/tmp/mut-%s-%s" % (pid, n)
print(f"""You are helping test a verification framework for GlareDB (an embeddable SQL analytics engine written in Rust). Your job is to act as a *fault seeder*: produce a realistic code change to GlareDB that BREAKS the following semantic property, while still compiling and still passing the project's existing test suite.

PROPERTY ({p['id']}): {p['title']}
Statement: {p['statement']}
Quantified over: {p['quantifier']['text']}

{hint}

Rules:
1. Work ONLY in your own scratch git worktree. Create it with:
     git -C /repo worktree add --detach {wt} HEAD
   Never modify /repo itself, and never read or touch /verif. Use CARGO_TARGET_DIR={wt}/target for every cargo command (to save build time you may first `cp -r /repo/target {wt}/target`). The sandbox is offline: always pass --offline to cargo (or set CARGO_NET_OFFLINE=true). There are 16 cores shared with other jobs; use `-j 6`.
2. The change must be the kind of mistake a developer could plausibly make (an off-by-one, a wrong comparison operator, a dropped boundary case, a wrong constant/shift, a missed carry-over of state between batches/pages/calls, a wrong rounding rule, a missing check, a copy-paste between type instantiations, two sites that each look fine alone, ...), in the non-test source of the crates under {wt}/crates. Keep it small (typically 1-15 changed lines). It must NOT be something ordinary use would expose at once: it should need something specific to manifest - an unusual input value or boundary, a particular sequence of operations, a particular split of data across batches/pages/partitions, one particular type instantiation, etc. Please produce TWO independent alternative changes if you can (deliver the second as patch2.diff / demo2.diff with its own notes section), in different functions/files.
3. The change must compile, and the existing tests must still pass with it. The project's reference suite is the unit tests of the workspace crates: run at least the unit tests of every crate you touched (`cargo test --offline -p glaredb_core --lib -j 6` = 510 tests; `cargo test --offline -p glaredb_ext_parquet --lib -j 6` = 228 tests; `-p glaredb_parser`, `-p glaredb_ext_csv` likewise); if a test fails because of your change, pick a different change. (The .slt SQL logic tests under /repo/slt mostly cannot run in this sandbox; they are not required.)
4. Write a demonstration: a Rust unit test (preferred: a `#[test]` appended to an existing test module in the crate, so that it can reach private items; or a SQL script run through the CLI binary `cargo build --offline -p glaredb` -> target/debug/glaredb -c "<sql>") that FAILS with your change applied and PASSES on the unmodified code. The demonstration must go through real GlareDB code (not a re-implementation).
5. Deliver, in the directory /tmp/mut-out/{pid}-{n}/ (create it):
     patch.diff   - `git diff` of the source change ONLY (no tests), applicable with `git apply` at the repo root
     demo.diff    - `git diff` adding the demonstration test ONLY (or demo.sql / demo.sh if not a Rust test)
     NOTES.md     - which function/behaviour you changed, why it breaks the property, exactly what is needed for it to manifest, the name of the demo test(s) and the crate they live in, the exact commands you ran (tests that still pass; the demo failing with the patch and passing without it) and their outcome.
6. Leave the worktree in place (do not delete it); do not commit anything.

Be efficient: read the relevant code first, choose the mutation, then build and test. Report back a short summary (what you changed, how it manifests, the demo test names + crate, and test results).""")
