#!/bin/bash
# Runs the repository's pinned baseline suite on /repo (or $1) and compares the pass set with BASELINE.json stable_pass.
# usage: baseline.sh [repo_dir] [extra cargo nextest args...]
REPO=${1:-/repo}; shift
OUT=$(mktemp -d /var/tmp/baseline.XXXXXX)
cd "$REPO" || exit 2
cat > $OUT/nextest.toml <<EOT
[profile.pb]
fail-fast = false
retries = 0
status-level = "fail"
final-status-level = "flaky"
failure-output = "never"
success-output = "never"
slow-timeout = { period = "60s", terminate-after = 5 }
[profile.pb.junit]
path = "$OUT/junit.xml"
report-name = "pb"
EOT
cargo nextest run --workspace --no-fail-fast --tool-config-file pb:$OUT/nextest.toml --profile pb --test-threads 8 --offline "$@" > $OUT/log 2>&1
python3 - "$OUT/junit.xml" <<'EOP'
import json, sys, xml.etree.ElementTree as ET
base = set(json.load(open('/root/.vp/BASELINE.json'))['stable_pass'])
root = ET.parse(sys.argv[1]).getroot()
passed, failed = set(), set()
for tc in root.iter('testcase'):
    tid = (tc.get('classname') or '') + '::' + (tc.get('name') or '')
    if tc.find('failure') is not None or tc.find('error') is not None:
        failed.add(tid)
    elif tc.find('skipped') is None:
        passed.add(tid)
missing = sorted(base - passed)
print("baseline stable_pass=%d passed_now=%d (of which in baseline: %d) missing_from_pass=%d" % (len(base), len(passed), len(base & passed), len(missing)))
for m in missing[:40]:
    print("  NOT PASSING:", m, "(failed)" if m in failed else "(absent)")
sys.exit(1 if missing else 0)
EOP
rc=$?
echo "log: $OUT/log"
[ $rc -eq 0 ] && rm -rf "$OUT"
exit $rc
