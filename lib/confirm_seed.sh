#!/bin/bash
# usage: confirm_seed.sh <worktree> <patch.diff> <demo.diff> <crate> <demo test name filter>
# Confirms a seeded change: (1) demo passes on the unmodified tree, (2) demo fails with the patch,
# (3) the crate's existing unit tests (everything except the demo) still pass with the patch.
WT=$1; PATCH=$2; DEMO=$3; CRATE=$4; FILTER=$5
cd "$WT" || exit 2
export CARGO_TARGET_DIR=$WT/target CARGO_NET_OFFLINE=true
git checkout -q -- . && git clean -fdq -e target
git apply "$DEMO" || { echo "CONFIRM demo does not apply"; exit 2; }
cargo test --offline -p $CRATE --lib -j 8 -- "$FILTER" > /tmp/confirm.$$.1 2>&1
grep -q "test result: ok" /tmp/confirm.$$.1 && ! grep -q " 0 passed" /tmp/confirm.$$.1 && echo "CONFIRM 1/3 demo passes without patch: yes" || { echo "CONFIRM 1/3 demo passes without patch: NO"; tail -5 /tmp/confirm.$$.1; }
git apply "$PATCH" || { echo "CONFIRM patch does not apply"; exit 2; }
cargo test --offline -p $CRATE --lib -j 8 -- "$FILTER" > /tmp/confirm.$$.2 2>&1
grep -q "test result: FAILED" /tmp/confirm.$$.2 && echo "CONFIRM 2/3 demo fails with patch: yes" || { echo "CONFIRM 2/3 demo fails with patch: NO"; tail -5 /tmp/confirm.$$.2; }
cargo test --offline -p $CRATE --lib -j 8 > /tmp/confirm.$$.3 2>&1
grep "test result:" /tmp/confirm.$$.3 | head -2
NF=$(grep -c "^test .* FAILED" /tmp/confirm.$$.3)
echo "CONFIRM 3/3 failing tests with patch+demo: $NF (must be only the demo tests):"
grep "^test .* FAILED" /tmp/confirm.$$.3
rm -f /tmp/confirm.$$.*
