#!/usr/bin/env python3
"""Regenerates /verif/MANIFEST.json from the table below (kept next to the code so it stays consistent)."""
import json, os
VERIF = os.path.dirname(os.path.dirname(os.path.abspath(__file__)))

CLAIMS = {
 "C02": {
  "text": "Translation validation of the expression rewriter: the real rules (DistributiveOrRewrite, UnnestConjunctionRewrite and the whole ExpressionRewriter::apply_rewrites pipeline) are run natively on an enumerated family of boolean expressions (3 nullable BOOLEAN columns, comparisons of a nullable INT32 column with literals, AND/OR/NOT, depth <= 3); every (before, after) pair is encoded in SMT (Kleene three-valued logic, Int32 as a 32-bit bit-vector with a NULL flag) and z3 decides whether any row distinguishes them - unsat = equivalent for ALL rows. Each satisfying row is replayed by evaluating both expressions with the real ExpressionEvaluator. 10,395 pairs in thorough (2,601 in quick); finds F9 (known finding). The constant-LIKE rewrite is covered by the Kani harnesses c20_like_*_rewrite (run under C20).",
  "note": "The data quantifier is decided by the solver; the program quantifier is a bounded enumerated family (stated in evidence). Outside: plan-level rules (filter pushdown, column pruning, join reordering, CSE, limit pushdown, scan filters, sort-limit hint), ConstFold beyond what the family exercises, JoinFilterOrRewrite. Disagreements that only exist on rows with NULLs and that the engine's NULL-propagating AND/OR (F8) masks are reported as a note, not as violations.",
  "design": "§3 C02", "category": "translation_validation", "engine": "tv-z3",
  "technique": "solver-based translation validation: real rewrite rules executed natively on symbolic-leaf expressions, before/after equivalence over all rows decided by z3 (SMT, QF_BV + Booleans), satisfying rows replayed through the real evaluator"},
 "C03": {
  "text": "Bounded model checking of the operators that carry state across batches: PhysicalLimit::poll_execute (real operator and shared state) over 3 zero-column batches with symbolic row counts and symbolic limit/offset - after every batch the rows emitted equal min(limit, rows seen - offset), never more than the batch holds, Exhausted exactly at the limit; generate_series: the concatenation of calls is the same arithmetic progression whatever the output capacity, complete, and it terminates at the i64 limits. Found and fixed: generate_series overflowing past i64::MAX.",
  "note": "parking_lot slow paths stubbed with panics (sequential harness). Outside: hash vs nested-loop join equivalence, partitioned hash aggregate merge, sort merge queue, partition and thread counts, INSERT/CTAS row counts.",
  "design": "§3 C03"},
 "C05": {
  "text": "Bounded model checking of the real ScalarFunction::execute entry points for AND/OR (2-input BinaryExecutor path), NOT, IS [NOT] NULL/TRUE/FALSE, the six comparison operators and IS [NOT] DISTINCT FROM on integer columns: for every value of the operands (full width, symbolic) and every NULL pattern of a one-row batch (each pattern its own harness) the output row equals the Kleene / SQL definition. Known finding F8 (NULL AND false, NULL OR true) is isolated in its own harnesses.",
  "note": "Outside: float NaN comparison semantics, strings, date/time, CASE, overload resolution, multi-row batches and dictionary/constant input formats (thorough adds some). NULL input rows use the AllInvalid validity representation (bitmap inputs to the binary executor exceed 14 GB in CBMC).",
  "design": "§3 C05"},
 "C10": {
  "text": "Bounded model checking of the page-level Parquet decoders against reference decoders written from the format definition: LSB-first bit unpacking (incl. the carried bit position), ULEB128, zigzag (bijection over all 64-bit values), the RLE/bit-packing hybrid decoder step by step from an arbitrary valid decoder state (RLE step, literal step at every bit position, run-header step), DELTA_BINARY_PACKED value reconstruction with wrapping arithmetic, the end of a DELTA_BINARY_PACKED length stream (single-value page without a block, completely filled block, padded last miniblock) for DELTA_LENGTH_BYTE_ARRAY / DELTA_BYTE_ARRAY, DELTA_LENGTH_BYTE_ARRAY and DELTA_BYTE_ARRAY row reconstruction, BYTE_STREAM_SPLIT, dictionary lookup, PLAIN with definition levels (NULL positions), INT96 timestamps on both sides of 1970 and RLE BOOLEAN runs. Each streaming obligation includes resume invariance: decoding n values in one call = decoding k then n-k (a run / miniblock / prefix continued in the next output batch). Found and fixed: the delta decoder repeated a value at the start of every continued read; INT96 timestamps before 1970 underflowed; a single-value delta page and a completely filled delta block failed on valid pages.",
  "note": "Sizes (output length, split point, run length, bit width, string lengths) are concrete per harness, data bytes / values / bit positions symbolic (symbolic sizes make CBMC merge infeasible error returns into the decoder state or copy an unbounded number of bytes). Stub (stated): ReaderErrorState::set_error_fn is a flag-recording stub in the array-level harnesses; the real pair is decided by c19_reader_error_state. Outside: thrift footer and page headers, compression codecs, page_reader (page header arithmetic, level buffers), column reader across pages/row groups, FIXED_LEN_BYTE_ARRAY readers, metadata table functions.",
  "design": "§3 C10"},
 "C15": {
  "text": "Narrow claim: the run-time kernels reachable from well-formed SQL return a value or an error in bounded time for every argument value, decided by the kernel harnesses tagged C15 (integer operators' unrepresentable region, gcd/lcm extremes, substring / left / right / lpad with extreme or negative arguments, generate_series at the i64 limits, decimal type arithmetic with negative scales). The integer-operator panics are known findings F1/F2/F17; the hangs and panics in the string kernels, generate_series and the decimal type rule were found and fixed.",
  "note": "A tokenizer harness (every UTF-8 text of <= 3 bytes) was written but did not finish within 1800 s even for one byte (keyword tables, String-valued tokens) and was removed. Outside: tokenizer, parser, resolver, binder, planner recursion depth, session/catalog state after a failed statement, worker-thread panic propagation.",
  "design": "§3 C15"},
 "C16": {
  "text": "Bounded model checking with CBMC's memory model (null/dangling/out-of-bounds/misaligned dereference, copy_nonoverlapping overlap, double/invalid free) of the hand-managed containers: DbVec<u8> through allocation, two pushes with reallocation, shrink, grow, read-back and drop; push_slice_no_resize; StringPtr/StringView construction and read-back on both sides of the 12-byte inline threshold and their 16-byte round trip. Every other harness of this framework also runs under the same pointer checks.",
  "note": "Sequential only (no data races); no uninitialised-read check (-Z uninit-checks ICEs in this Kani). Outside: row blocks, row layout, sort runs, hash tables, aggregate collections.",
  "design": "§3 C16"},
 "C18": {
  "text": "Bounded model checking of the announced result type of decimal +/-: for every pair of legal operand types (any DECIMAL(p,s) of the kind, or an integer type) common_add_sub_decimal_type_info returns a legal type equal to the documented rule (scale = max, precision = integer digits + scale + 1, capped with the cap reported), symmetric in its operands, computed without overflow; negative scales must not overflow. Found and fixed: i8 overflow (planner panic) for negative scales.",
  "note": "Outside: DESCRIBE vs result schema, UNION type unification, overload resolution, timestamp units; DecimalMul's rule lives inside bind() and is not harnessed.",
  "design": "§3 C18"},
 "C19": {
  "text": "Bounded model checking of the same decoder layer with NO validity assumption on the bytes: arbitrary / truncated buffers, arbitrary bit width bytes, arbitrary delta headers, pages that announce more values than they store (PLAIN, BYTE_STREAM_SPLIT, DELTA_LENGTH_BYTE_ARRAY, DELTA_BYTE_ARRAY), negative or oversized decoded lengths, dictionary indices outside the dictionary, arbitrary INT96 bytes and arbitrary RLE BOOLEAN run values must produce Ok or Err - no panic, no division by zero, no read past the buffer, no invalid bool (Kani's pointer checks + the cursor's debug assertions). Found and fixed: mask-table index out of bounds for widths > 64, reads past the end in bit_unpack, read_unsigned_vlq, the RLE run value, the delta block header and miniblock padding, division by zero on a zero miniblock count, unbounded bit-width table, unchecked reads in the PLAIN value readers / BYTE_STREAM_SPLIT / DELTA_LENGTH_BYTE_ARRAY, unchecked indexing by the announced row count, dictionary index panics, INT96 overflow panics, bool read from an arbitrary byte (confirmed with Miri).",
  "note": "Outside: thrift compact-protocol decoder, codecs, page_reader size arithmetic (copy_from_slice length mismatches, level length prefixes), whole-file truncation, CSV. State-based harnesses assume only what the constructors' validation establishes (stated per harness).",
  "design": "§3 C19"},
 "C11": {
  "text": "Bounded model checking of row-group pruning soundness: for PrimitiveRowGroupPruner over every (physical, logical) integer pairing the reader instantiates, symbolic statistics that are correct for the stored value (logical order for min_value/max_value, signed physical order for the deprecated fields), symbolic exactness flags and a symbolic filter constant: prune => stored value != constant. Found and fixed: unsound pruning of unsigned columns with deprecated signed-order statistics.",
  "note": "One ConstantEq filter. Outside: the optimizer rules that create scan filters, projections, glob expansion, multi-file/partition assignment, float/byte-array statistics.",
  "design": "§3 C11"},
 "C12": {
  "text": "Bounded model checking of Add/Sub/Mul/Div/Rem/Negate::execute for every integer width through the real executor: in the representable region the output equals the exact mathematical result (oracle: std checked_*); in the unrepresentable region (overflow, zero divisor) the statement must return an error. Integer->decimal and decimal->decimal rescaling exactness/precision (shared with C13). The unrepresentable region fails today for every operator (known findings F1/F2: raw operators panic or wrap) and is kept in separate harnesses so the exact region stays a live regression check.",
  "note": "Bounds: one-row arrays; full-width operands except div/rem exact for >=32-bit (|a|,|b| < 2^15) and mul for 64-bit (|b| < 2^8) and unsigned 128-bit (b < 8; the signed 128-bit exact-region harness gave no verdict in 1800 s and is not registered), stated in evidence. Outside: SUM/AVG states (C07), decimal arithmetic result-type rules (C18), float arithmetic, abs/round/ceil/floor, gcd/lcm/factorial.",
  "design": "§3 C12"},
 "C13": {
  "text": "Bounded model checking of the real cast kernels PrimToPrim (integer->integer all pairs in thorough, float->integer), IntToDecimal and DecimalToDecimal through CastFunction::{bind,cast}: representable => exact; otherwise error (CAST) or NULL (TRY_CAST); decimal results never exceed the target precision; downscaling rounds half away from zero (checked with a multiplication-only characterisation). Found and fixed: 10^scale computed in i32 (two casts), validate_precision overflow on MIN, missing precision check in decimal->decimal.",
  "note": "Stub (stated): CastErrorState::set_error is replaced by a flag-recording stub in the array-level harnesses because dropping a possibly-initialised DbError does not terminate in CBMC; the real set_error/into_result pair is decided by c13_cast_error_state. Decimal (p,s) are concrete per harness. Outside: text parsing/formatting (std dec2flt / fmt), float->float, dates/intervals.",
  "design": "§3 C13"},
 "C06": {
  "text": "Bounded model checking of the preserved-side row accounting of outer/semi/anti joins: MatchIndexIter yields exactly the rows whose match bit has the requested value - once, ascending - and announces that count (it sizes the output selection); MatchTracker::{left_outer,left_semi,right_outer}_result emit exactly the unmatched / matched rows for symbolic match bits and a symbolic probe offset.",
  "note": "Zero-column batches (row counts and positions, not payload). Outside: JoinHashTable build/probe/drain, PredicateRowMatcher, hash vs nested-loop equivalence, NULL key semantics, planner.",
  "design": "§3 C06"},
 "C07": {
  "text": "Bounded model checking of the aggregate state algebra on the real state types (SUM int/decimal, COUNT, MIN, MAX, FIRST, BOOL_AND/OR, BIT_AND/OR, AVG over BIGINT): for every sequence of up to 4 symbolic inputs and every split into two partial states, finalize(merge(A,B)) = finalize(sequential) = the mathematical aggregate; empty input gives NULL (0 for COUNT); SUM overflow must fail. This is the partition/arrival-order independence of the property at the level where it is decided (the states), for all values rather than the sampled ones. Found and fixed: SUM restarting from 0 on overflow.",
  "note": "Outside: group identification (hash table/directory resize, partitioned merge), DISTINCT pre-aggregation, ROLLUP/CUBE/GROUPING, string_agg, float accumulators (rounding order), UNION.",
  "design": "§3 C07"},
 "C20": {
  "text": "Bounded model checking of the optimizer's constant-LIKE classifiers against a reference LIKE matcher written from the definition: whenever a pattern is classified as equality / prefix / suffix / contains, the replacement predicate on the trimmed pattern accepts exactly the strings the pattern denotes, for every pattern and subject over {a,b,%,_,\\} up to 3 bytes (4 in thorough). Found and fixed: patterns with escapes were rewritten; LIKE wildcards did not match newline (found by reading the regex translation, confirmed through the CLI).",
  "note": "The general matcher itself (regex crate) is outside reach; its reading of the pattern language is the oracle. Outside: string kernels not yet harnessed are listed in DESIGN.md; regexp_* functions; case mapping; md5.",
  "design": "§3 C20"},
 "C08": {
  "text": "Bounded model checking (Kani/CBMC) of the real sort-key encoders: for every pair of values of every sortable scalar type (full bit width, symbolic) memcmp order of the encoded keys equals the declared order (numeric, NaN largest, false<true, interval lexicographic), DESC inversion reverses it exactly, NULL bytes dominate per NULLS FIRST/LAST, and the 12-byte string prefix key never contradicts byte-wise order (strings <= 14 bytes). A solver verdict over all values, which the 2^16-value sampling of the tests cannot give for 32/64/128-bit keys.",
  "note": "Kani 0.68 / CBMC 6.11 / cadical trusted. Outside the claim: partial_sort, binary_merge, merge_queue block/run structures, heap tie-break comparison, planner. Bounds: loop unwinding asserted (unwind <= 18).",
  "design": "§3 C08"},
}
NOT_APPLICABLE = {
 "C04": "Kani has no threads; the atomic-call schedule harness over ResultStream/Union/Materialize did not leave symbolic execution in the design probe and was not pursued",
 "C14": "MemoryCatalog is built on lock-free scc maps keyed by strings (pointer-rich, concurrent); the row-visibility kernel was a stretch goal not reached",
 "C17": "csv_core builds its DFA in the constructor (unwind >= 257, >15 min symex without reaching the decoder); the rest of the property rests on std float/int parsing",
 "C01": "whole-pipeline semantic equivalence (parser->binder->planner->optimizer->pipelines over heap-allocated plan graphs); no bounded kernel is this property; ingredients are claimed under C05-C08, C12, C13",
 "C09": "decorrelation/CTE/view semantics are defined only through whole-plan execution over BindContext graphs; not encodable within reach of Kani/SMT here",
}

def main():
    props = [json.loads(l)["id"] for l in open(os.path.join(VERIF, "properties.jsonl"))]
    checks = []
    for pid in props:
        if pid not in CLAIMS:
            continue
        c = CLAIMS[pid]
        checks.append({
            "property_id": pid,
            "quick_cmd": "./check %s --tier quick" % pid,
            "thorough_cmd": "./check %s --tier thorough" % pid,
            "evidence_file": "/verif/evidence/%s.json" % pid,
            "replay_cmd_template": "./check %s --replay {path}" % pid,
            "engine": c.get("engine", "kani-overlay"),
            "level_claimed": {"category": c.get("category", "model_checking"), "text": c["text"], "design_ref": c["design"]},
            "level_note": c["note"],
            "technique": c.get("technique", "solver-based bounded model checking of the real code: Kani proof harnesses over kani::any() inputs, decided by CBMC 6.11 + cadical (SAT); counterexamples replayed natively"),
        })
    na = []
    for pid in props:
        if pid in CLAIMS:
            continue
        na.append({"property_id": pid, "reason": NOT_APPLICABLE.get(pid, "check not built yet in this session (planned per DESIGN.md §3); not claimed until its harnesses pass on the unchanged tree")})
    man = {
        "version": 1,
        "setup_cmd": "python3 /verif/lib/setup.py",
        "hooks": {
            "guard": "kani",
            "enable": "no hooks are committed to /repo: harness modules are injected as `#[cfg(kani)] #[path=..] mod ..;` child modules into a scratch copy (rsync) of /repo's working tree on every run (lib/vf/overlay.py); cfg(kani) is set by kani-compiler only",
            "baseline_off_cmd": "cd /repo && cargo nextest run --workspace --no-fail-fast --test-threads 8 --offline",
            "source_commits": [],
            "add_only": True,
        },
        "engines": [
            {"name": "tv-z3", "path": "/verif/tv/engine.py", "serves_properties": ["C02"],
             "kind_free_text": "translation validation: native driver (tv/verif_tv_driver.rs, copied into the scratch overlay) runs the real rewrite rules; python/z3 decides equivalence; native replay through ExpressionEvaluator"},
            {"name": "kani-overlay", "path": "/verif/check", "serves_properties": sorted(p for p in CLAIMS if p != "C02"),
             "kind_free_text": "Kani 0.68 (CBMC 6.11, cadical) proof harnesses over the real crate sources copied from /repo on every run; per-harness JSON verdicts; native concrete-playback replay before any VIOLATION"},
        ],
        "checks": checks,
        "notes": "Exit 2 = inconclusive (harness does not build on a changed tree, timeout, solver error, vacuous cover, non-reproducing counterexample). Fix commits in /repo: see known_findings.json 'fixed'.",
        "not_applicable": na,
    }
    with open(os.path.join(VERIF, "MANIFEST.json"), "w") as fh:
        json.dump(man, fh, indent=1)
        fh.write("\n")

if __name__ == "__main__":
    main()
