#!/usr/bin/env python3
"""MANIFEST.setup_cmd: verifies the offline tool chain is present. Nothing is fetched or built ahead of time:
every check rebuilds its overlay from /repo's working tree (cargo's cache under $VERIF_SCRATCH is only a cache)."""
import shutil, subprocess, sys
need = ["cargo", "cbmc", "rsync", "z3"]
missing = [t for t in need if not shutil.which(t)]
r = subprocess.run(["cargo", "kani", "--version"], capture_output=True, text=True)
if r.returncode != 0:
    missing.append("cargo-kani")
if missing:
    print("missing tools: %s" % missing)
    sys.exit(1)
print(r.stdout.strip())
print("setup ok")
