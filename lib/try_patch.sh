#!/bin/bash
# usage: try_patch.sh <patch.diff> <prop> [tier] [extra check args...]
# Runs a check against a seeded change WITHOUT touching /repo: the patch is applied in a scratch
# git worktree of /repo's HEAD (+ /repo's uncommitted changes are not carried), the check is pointed
# at it with VERIF_REPO, and the worktree is removed afterwards. (Equivalent to
# `git -C /repo apply; ./check; git -C /repo checkout -- .`, but safe while other checks run.)
P=$1; PROP=$2; TIER=${3:-quick}; shift 3
WT=/var/tmp/seedrepo.$$
git -C /repo worktree add --detach -q $WT HEAD || exit 2
trap 'git -C /repo worktree remove --force $WT >/dev/null 2>&1' EXIT
git -C $WT apply "$P" || { echo "patch does not apply"; exit 2; }
cd /verif && VERIF_REPO=$WT VERIF_SCRATCH=/var/tmp/glaredb-verif-seed ./check $PROP --tier $TIER --no-evidence "$@"; rc=$?
echo "check exit=$rc"
exit $rc
