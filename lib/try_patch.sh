#!/bin/bash
# usage: try_patch.sh <patch.diff> <prop> [tier] [extra check args...]
# applies a seeded patch to /repo, runs the check, and ALWAYS restores /repo.
P=$1; PROP=$2; TIER=${3:-quick}; shift 3
cd /repo || exit 2
if [ -n "$(git status --porcelain --untracked-files=no)" ]; then echo "/repo not clean"; exit 2; fi
git apply "$P" || { echo "patch does not apply"; exit 2; }
cd /verif && ./check $PROP --tier $TIER --no-evidence "$@"; rc=$?
git -C /repo checkout -- . 
echo "check exit=$rc"
exit $rc
