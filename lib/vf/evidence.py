import json, os

VERIF = os.path.dirname(os.path.dirname(os.path.dirname(os.path.abspath(__file__))))


def write(prop, doc):
    os.makedirs(os.path.join(VERIF, "evidence"), exist_ok=True)
    path = os.path.join(VERIF, "evidence", prop + ".json")
    tmp = path + ".tmp"
    with open(tmp, "w") as fh:
        json.dump(doc, fh, indent=1, sort_keys=False)
        fh.write("\n")
    os.replace(tmp, path)
    return path
