"""known_findings.json: genuine defects recorded rather than repaired (see DESIGN.md §5).

An entry suppresses exactly one (harness, failed-check) pair:
  {"id": "F1", "properties": ["C12","C15"], "harness": "c12_add_i32_overflow_is_error",
   "check": "<substring of the failed check's description>",
   "function": "<optional substring of the function the failed check is located in>",
   "what": "...", "replay": "<SQL or input that shows it through the real build>"}
Entries under "fixed" suppress nothing.
"""
import json, os

VERIF = os.path.dirname(os.path.dirname(os.path.dirname(os.path.abspath(__file__))))
PATH = os.path.join(VERIF, "known_findings.json")


def load():
    if not os.path.exists(PATH):
        return {"findings": [], "fixed": []}
    with open(PATH) as fh:
        d = json.load(fh)
    d.setdefault("findings", [])
    d.setdefault("fixed", [])
    return d


def match(findings, prop, harness, failed_check):
    for f in findings:
        if f.get("harness") != harness:
            continue
        if prop not in f.get("properties", []):
            continue
        if f.get("check", "") not in failed_check.get("description", ""):
            continue
        if f.get("function") and f["function"] not in failed_check.get("function", ""):
            continue
        return f
    return None
