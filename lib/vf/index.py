"""Harness index, built by scanning /verif/harness/**.rs annotations.

  // @module crate=<crate> parent=<path relative to crate dir>
  // @h name=<fn> props=C08[,C16] tier=quick|thorough [cap=<s>] [mem=<GB>]
"""
import os, re, glob

VERIF = os.path.dirname(os.path.dirname(os.path.dirname(os.path.abspath(__file__))))
HARNESS_DIR = os.path.join(VERIF, "harness")


def _kv(s):
    out = {}
    for tok in s.split():
        if "=" in tok:
            k, v = tok.split("=", 1)
            out[k] = v
    return out


def parent_to_modpath(parent):
    p = parent
    assert p.startswith("src/"), parent
    p = p[4:]
    if p.endswith(".rs"):
        p = p[:-3]
    parts = p.split("/")
    if parts[-1] in ("mod", "lib"):
        parts = parts[:-1]
    return "::".join(parts)


def load():
    modules, harnesses = [], {}
    for f in sorted(glob.glob(os.path.join(HARNESS_DIR, "*", "*.rs"))):
        with open(f) as fh:
            text = fh.read()
        m = re.search(r"^// @module (.*)$", text, re.M)
        if not m:
            continue
        kv = _kv(m.group(1))
        base = os.path.splitext(os.path.basename(f))[0]
        mod = {"file": f, "crate": kv["crate"], "parent": kv["parent"], "modname": "kani_verif_" + base,
               "harnesses": []}
        ca = re.search(r"^// @cbmc-args (.*)$", text, re.M)
        mod["cbmc_args"] = ca.group(1).split() if ca else []
        pm = parent_to_modpath(kv["parent"])
        mod["modpath"] = (pm + "::" if pm else "") + mod["modname"]
        for hm in re.finditer(r"^// @h (.*)$", text, re.M):
            h = _kv(hm.group(1))
            name = h["name"]
            if name in harnesses:
                raise ValueError("duplicate harness name %s" % name)
            if not re.search(r"\b%s\b" % re.escape(name), text[hm.end():]):
                raise ValueError("annotation for %s has no matching item in %s" % (name, f))
            ent = {"name": name, "props": h["props"].split(","), "tier": h.get("tier", "quick"),
                   "cap": int(h.get("cap", 0)) or None, "module": mod["modname"], "crate": kv["crate"],
                   "fq": mod["modpath"] + "::" + name, "file": f,
                   "cbmc_args": mod["cbmc_args"]}
            harnesses[name] = ent
            mod["harnesses"].append(name)
        modules.append(mod)
    return modules, harnesses


def select(harnesses, prop, tier):
    out = []
    for h in harnesses.values():
        if prop in h["props"] and (h["tier"] == "quick" or tier == "thorough"):
            out.append(h)
    return sorted(out, key=lambda h: h["name"])
