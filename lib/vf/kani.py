"""Run cargo kani on an overlay and parse per-harness results from --export-json."""
import json, os, re, signal, subprocess, threading, time

KANI_ENV = {"CARGO_NET_OFFLINE": "true", "CARGO_TERM_COLOR": "never"}


class MemWatch(threading.Thread):
    """Kills any cbmc process of our session whose RSS exceeds cap_gb; records the peak."""

    def __init__(self, sid, cap_gb):
        super().__init__(daemon=True)
        self.sid, self.cap_kb = sid, int(cap_gb * 1024 * 1024)
        self.peak_kb, self.killed, self._stop = 0, [], threading.Event()

    def run(self):
        while not self._stop.wait(2.0):
            for pid in os.listdir("/proc"):
                if not pid.isdigit():
                    continue
                try:
                    with open("/proc/%s/stat" % pid) as fh:
                        st = fh.read()
                    comm = st[st.index("(") + 1:st.rindex(")")]
                    fields = st[st.rindex(")") + 2:].split()
                    sess = int(fields[3])
                    if sess != self.sid or comm not in ("cbmc", "cadical", "kissat"):
                        continue
                    rss_kb = int(fields[21]) * 4
                    self.peak_kb = max(self.peak_kb, rss_kb)
                    if rss_kb > self.cap_kb:
                        os.kill(int(pid), signal.SIGKILL)
                        self.killed.append(int(pid))
                except (OSError, ValueError, IndexError):
                    continue

    def stop(self):
        self._stop.set()


def run(tree, target_dir, crate, fq_names, jobs, harness_timeout_s, wall_cap_s, mem_cap_gb, log_path,
        extra_args=()):
    """Returns (results: dict fq -> result dict, meta dict). Never raises on verification failure."""
    out_json = log_path + ".json"
    for p in (out_json,):
        if os.path.exists(p):
            os.remove(p)
    cmd = ["cargo", "kani", "-p", crate, "-Z", "stubbing", "-Z", "unstable-options",
           "--target-dir", target_dir, "--output-format", "terse", "--export-json", out_json,
           "--harness-timeout", "%ds" % harness_timeout_s, "--exact", "-j", str(jobs)]
    for n in fq_names:
        cmd += ["--harness", n]
    cmd += list(extra_args)
    env = dict(os.environ)
    env.update(KANI_ENV)
    t0 = time.time()
    with open(log_path, "w") as log:
        log.write("$ " + " ".join(cmd) + "\n")
        log.flush()
        proc = subprocess.Popen(cmd, cwd=tree, env=env, stdout=log, stderr=subprocess.STDOUT,
                                start_new_session=True)
        watch = MemWatch(proc.pid, mem_cap_gb)
        watch.start()
        timed_out = False
        try:
            proc.wait(timeout=wall_cap_s)
        except subprocess.TimeoutExpired:
            timed_out = True
        finally:
            watch.stop()
            try:
                os.killpg(proc.pid, signal.SIGKILL)
            except ProcessLookupError:
                pass
            proc.wait()
    wall = time.time() - t0
    with open(log_path, errors="replace") as fh:
        logtxt = fh.read()
    meta = {"cmd": " ".join(cmd), "wall_s": round(wall, 2), "rc": proc.returncode, "wall_timeout": timed_out,
            "peak_rss_mb": watch.peak_kb // 1024, "mem_killed": len(watch.killed),
            "compile_error": bool(re.search(r"error: could not compile|Failed to execute cargo|error\[E\d+\]", logtxt)),
            "ice": "internal compiler error" in logtxt or "Kani unexpectedly panicked" in logtxt}
    results = {}
    data = None
    if os.path.exists(out_json):
        try:
            with open(out_json) as fh:
                data = json.load(fh)
        except ValueError:
            data = None
    if data:
        meta["kani_version"] = data.get("metadata", {}).get("kani_version")
        meta["cbmc_version"] = data.get("tools", {}).get("cbmc")
        stats = {c["harness_id"]: c.get("cbmc_stats", {}) for c in data.get("cbmc", [])}
        pdet = {c["harness_id"]: c.get("property_details", {}) for c in data.get("property_details", [])}
        edet = {c["harness_id"]: c for c in data.get("error_details", [])}
        for r in data.get("verification_results", {}).get("results", []):
            hid = r["harness_id"]
            failed, covers, undet = [], {"satisfied": 0, "unsatisfiable": 0, "list": []}, 0
            nchecks = 0
            for c in r.get("checks", []):
                st = c.get("status", "")
                cat = c.get("category", "")
                if cat == "cover" or st in ("Satisfied", "Unsatisfiable", "SATISFIED", "UNSATISFIABLE"):
                    k = "satisfied" if st.lower() == "satisfied" else "unsatisfiable"
                    covers[k] += 1
                    covers["list"].append({"desc": c.get("description", "")[:160], "status": st,
                                           "line": c.get("location", {}).get("line")})
                    continue
                nchecks += 1
                if st.lower() == "failure":
                    loc = c.get("location", {}) or {}
                    failed.append({"description": c.get("description", ""), "function": c.get("function", ""),
                                   "category": cat, "file": loc.get("file", ""), "line": loc.get("line", "")})
                elif st.lower() in ("undetermined", "solver_error"):
                    undet += 1
            status = r.get("status", "").upper()
            ed = edet.get(hid) or {}
            if ed.get("exit_status") == "timeout":
                status = "TIMEOUT"
            elif status == "FAILURE" and not failed:
                status = "ERROR"
            results[hid] = {"status": status, "duration_s": r.get("duration_ms", 0) / 1000.0,
                            "failed_checks": failed, "covers": covers, "undetermined": undet,
                            "checks": nchecks, "cbmc_stats": stats.get(hid) or {},
                            "property_details": pdet.get(hid) or {}, "error": ed}
    return results, meta
