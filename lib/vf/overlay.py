"""Scratch overlay of /repo's current working tree with harness modules injected.

Nothing is written to /repo. The overlay is regenerated (rsync) from /repo's
working tree on every run, so edits to /repo are always picked up.
"""
import os, re, subprocess, shutil, fcntl, time

REPO = os.environ.get("VERIF_REPO", "/repo")
VERIF = os.path.dirname(os.path.dirname(os.path.dirname(os.path.abspath(__file__))))
SCRATCH_ROOT = os.environ.get("VERIF_SCRATCH", "/var/tmp/glaredb-verif")

# crates every overlay carries (glaredb_core's path deps + the two extensions we harness)
CRATES = ["glaredb_core", "glaredb_error", "glaredb_parser", "glaredb_ext_parquet", "glaredb_ext_csv"]


class Overlay:
    def __init__(self, name):
        self.name = name
        self.root = os.path.join(SCRATCH_ROOT, name)
        self.tree = os.path.join(self.root, "tree")
        self.target = os.path.join(self.root, "target")
        self.lock_fd = None

    def acquire(self, wait_s=0):
        """Exclusive lock on the overlay (one check at a time per overlay name)."""
        os.makedirs(self.root, exist_ok=True)
        self.lock_fd = open(os.path.join(self.root, ".lock"), "w")
        t0 = time.time()
        while True:
            try:
                fcntl.flock(self.lock_fd, fcntl.LOCK_EX | fcntl.LOCK_NB)
                return True
            except BlockingIOError:
                if time.time() - t0 > wait_s:
                    self.lock_fd.close()
                    self.lock_fd = None
                    return False
                time.sleep(1.0)

    def release(self):
        if self.lock_fd:
            fcntl.flock(self.lock_fd, fcntl.LOCK_UN)
            self.lock_fd.close()
            self.lock_fd = None

    def sync(self, modules):
        """rsync sources from /repo and inject `modules` (list of harness module dicts).

        Each module: {file: abs path of harness .rs, crate, parent (rel to crate dir), modname}.
        Harness files are copied into <tree>/crates/<crate>/kani_verif/ so that
        concrete playback (inplace) never touches /verif.
        """
        os.makedirs(self.tree, exist_ok=True)
        os.makedirs(os.path.join(self.tree, "crates"), exist_ok=True)
        # --checksum keeps mtimes of unchanged files stable => cargo fingerprints reuse the cache.
        for f in ("Cargo.lock", "rustfmt.toml"):
            src = os.path.join(REPO, f)
            if os.path.exists(src):
                subprocess.run(["rsync", "-a", "--checksum", src, os.path.join(self.tree, f)], check=True)
        by_parent = {}
        for m in modules:
            by_parent.setdefault((m["crate"], m["parent"]), []).append(m)
        for c in CRATES:
            excl = []
            for (crate, parent) in by_parent:
                if crate == c:
                    excl += ["--exclude", "/" + parent]
            subprocess.run(
                ["rsync", "-a", "--checksum", "--delete", "--exclude", "/target", "--exclude", "/kani_verif"] + excl +
                [os.path.join(REPO, "crates", c) + "/", os.path.join(self.tree, "crates", c) + "/"],
                check=True)
        # workspace manifest: same as /repo's but members trimmed to the copied crates
        with open(os.path.join(REPO, "Cargo.toml")) as fh:
            manifest = fh.read()
        members = ",\n".join('  "crates/%s"' % c for c in CRATES)
        manifest = re.sub(r"members = \[[^\]]*\]", "members = [\n%s,\n]" % members, manifest, count=1)
        manifest = re.sub(r"default-members = \[[^\]]*\]\n", "", manifest, count=1)
        _write_if_changed(os.path.join(self.tree, "Cargo.toml"), manifest)
        # inject harness modules (parent files are excluded from rsync and written by hand,
        # so an unchanged parent+harness set keeps its mtime and cargo's cache stays warm)
        wanted = set()
        for (crate, parent), mods in sorted(by_parent.items()):
            kd = os.path.join(self.tree, "crates", crate, "kani_verif")
            os.makedirs(kd, exist_ok=True)
            src = os.path.join(REPO, "crates", crate, parent)
            if not os.path.exists(src):
                raise FileNotFoundError("harness parent module missing in /repo: %s/%s" % (crate, parent))
            with open(src) as fh:
                body = fh.read()
            extra = "\n// ---- injected by /verif (scratch overlay only) ----\n"
            for m in sorted(mods, key=lambda m: m["modname"]):
                dst = os.path.join(kd, m["modname"] + ".rs")
                wanted.add(dst)
                with open(m["file"]) as fh:
                    _write_if_changed(dst, fh.read())
                extra += '#[cfg(kani)]\n#[path = "%s"]\npub(crate) mod %s;\n' % (dst, m["modname"])
            _write_if_changed(os.path.join(self.tree, "crates", crate, parent), body + extra)
        for c in CRATES:
            kd = os.path.join(self.tree, "crates", c, "kani_verif")
            if os.path.isdir(kd):
                for f in os.listdir(kd):
                    p = os.path.join(kd, f)
                    if p not in wanted:
                        os.remove(p)
        return self.tree

    def destroy(self):
        shutil.rmtree(self.root, ignore_errors=True)


def _write_if_changed(path, text):
    try:
        with open(path) as fh:
            if fh.read() == text:
                return
    except FileNotFoundError:
        pass
    with open(path, "w") as fh:
        fh.write(text)
