"""Native replay of solver counterexamples (DESIGN.md §2.2 "Replay before reporting").

The failing harness is re-run with Kani's concrete playback, the generated
unit tests (one per failed check, carrying the solver's concrete input bytes)
are appended to the overlay copy of the harness module and executed natively
with `cargo kani playback` (real `format!`, real backtraces: no stubs apply).
A counterexample counts as reproduced when its test panics natively.
"""
import os, re, signal, subprocess, time

from . import index
from .overlay import Overlay

VERIF = os.path.dirname(os.path.dirname(os.path.dirname(os.path.abspath(__file__))))
ENV = {"CARGO_NET_OFFLINE": "true", "CARGO_TERM_COLOR": "never", "RUST_BACKTRACE": "0"}


def _run(cmd, cwd, log_path, timeout):
    env = dict(os.environ)
    env.update(ENV)
    with open(log_path, "w") as log:
        log.write("$ " + " ".join(cmd) + "\n")
        log.flush()
        p = subprocess.Popen(cmd, cwd=cwd, env=env, stdout=log, stderr=subprocess.STDOUT, start_new_session=True)
        try:
            p.wait(timeout=timeout)
        except subprocess.TimeoutExpired:
            pass
        finally:
            try:
                os.killpg(p.pid, signal.SIGKILL)
            except ProcessLookupError:
                pass
            p.wait()
    with open(log_path, errors="replace") as fh:
        return p.returncode, fh.read()


def extract_tests(logtxt):
    """Returns list of (kind, description, test_source)."""
    out = []
    seen = set()
    for m in re.finditer(r"```\n(/// Test generated for harness.*?)```", logtxt, re.S):
        src = m.group(1)
        km = re.search(r"/// Check for `([^`]*)`: (.*)", src)
        kind, desc = (km.group(1), km.group(2)) if km else ("?", "")
        fm = re.search(r"fn (kani_concrete_playback_\w+)\(", src)
        name = fm.group(1) if fm else src
        if name in seen:  # same concrete values printed for several checks: one test is enough
            continue
        seen.add(name)
        out.append((kind, desc.strip(), src))
    return out


def _module_copy(ov, h):
    return os.path.join(ov.tree, "crates", h["crate"], "kani_verif", h["module"] + ".rs")


def _native(ov, h, tests, logdir, tag):
    path = _module_copy(ov, h)
    with open(path) as fh:
        orig = fh.read()
    with open(path, "w") as fh:
        fh.write(orig + "\n// ---- concrete playback tests (appended by /verif replay) ----\n" +
                 "\n".join(t for _, _, t in tests))
    try:
        cmd = ["cargo", "kani", "playback", "-Z", "concrete-playback", "-p", h["crate"], "--",
               "kani_concrete_playback_%s_" % h["name"], "--test-threads", "1"]
        rc, txt = _run(cmd, ov.tree, os.path.join(logdir, "replay-%s-%s.log" % (h["name"], tag)), 1500)
    finally:
        with open(path, "w") as fh:
            fh.write(orig)
    failed = re.findall(r"^test (\S+) \.\.\. FAILED", txt, re.M)
    # a playback test that started but never finished within the cap is a reproduced hang
    if rc is None or rc < 0:
        started = re.findall(r"^test (\S+) has been running for over", txt, re.M)
        failed += ["%s (no result within the replay cap: hang)" % t for t in started[-1:]]
    passed = re.findall(r"^test (\S+) \.\.\. ok", txt, re.M)
    panics = re.findall(r"panicked at [^\n]*\n([^\n]*)", txt)
    return {"rc": rc, "failed": failed, "passed": passed, "panics": panics[:6],
            "built": bool(failed or passed)}


def confirm(ov, prop, h, unlisted, modules, cfg):
    logdir = os.path.join(ov.root, "logs")
    os.makedirs(logdir, exist_ok=True)
    outdir = os.path.join(VERIF, "replays", prop)
    os.makedirs(outdir, exist_ok=True)
    path = os.path.join(outdir, h["name"] + ".rs")
    cmd = ["cargo", "kani", "-p", h["crate"], "-Z", "stubbing", "-Z", "unstable-options", "-Z", "concrete-playback",
           "--concrete-playback=print", "--target-dir", ov.target, "--output-format", "terse",
           "--harness-timeout", "%ds" % cfg["harness_s"], "--exact", "--harness", h["fq"]]
    rc, txt = _run(cmd, ov.tree, os.path.join(logdir, "playback-%s.log" % h["name"]), cfg["harness_s"] + 1200)
    # Kani de-duplicates playback tests by their concrete values and labels each with the first
    # check that produced them, so a test labelled `cover` may carry the failing assertion's input:
    # run all of them; only a native panic counts as reproduction.
    tests = extract_tests(txt)
    hdr = ["// replay for property=%s harness=%s (module %s, crate %s)" % (prop, h["name"], h["module"], h["crate"]),
           "// failed checks not listed in known_findings.json:"]
    for fc in unlisted:
        hdr.append("//   %s  [in %s, %s:%s]" % (fc["description"].replace("\n", " ")[:200], fc["function"],
                                               os.path.basename(fc.get("file", "")), fc.get("line", "")))
    hdr.append("// re-run: cd /verif && ./check %s --replay %s" % (prop, path))
    res = {"reproduced": False, "path": path}
    if not tests:
        res["why"] = "Kani produced no concrete playback test"
        with open(path, "w") as fh:
            fh.write("\n".join(hdr) + "\n// no concrete playback test was produced\n")
        return res
    nat = _native(ov, h, tests, logdir, "dev")
    hdr.append("// native result (dev profile): failed=%d passed=%d" % (len(nat["failed"]), len(nat["passed"])))
    for p in nat["panics"]:
        hdr.append("//   panic: %s" % p[:200])
    with open(path, "w") as fh:
        fh.write("\n".join(hdr) + "\n\n" + "\n".join(t for _, _, t in tests))
    if nat["failed"]:
        res["reproduced"] = True
    elif not nat["built"]:
        res["why"] = "playback build failed"
    else:
        res["why"] = "all playback tests passed natively"
    return res


def rerun(path, modules, harnesses):
    with open(path) as fh:
        txt = fh.read()
    m = re.search(r"property=(\S+) harness=(\S+)", txt)
    if not m:
        print("not a replay file: %s" % path)
        return 2
    prop, hname = m.group(1), m.group(2)
    h = harnesses.get(hname)
    if not h:
        print("unknown harness %s" % hname)
        return 2
    tests = [("assertion", "", t) for t in re.findall(r"(/// Test generated for harness.*?\n}\n)", txt, re.S)]
    if not tests:
        print("replay file carries no tests")
        return 2
    ov = Overlay("replay-%d" % os.getpid())
    ov.acquire(0)
    try:
        ov.sync(modules)
        nat = _native(ov, h, tests, os.path.join(ov.root, "logs") if os.makedirs(os.path.join(ov.root, "logs"), exist_ok=True) is None else "", "rerun")
        for t in nat["failed"]:
            print("REPRODUCED %s" % t)
        for p in nat["panics"]:
            print("  panic: %s" % p[:200])
        for t in nat["passed"]:
            print("passes now: %s" % t)
        if nat["failed"]:
            print("VIOLATION property=%s replay=%s" % (prop, path))
            return 1
        return 0 if nat["built"] else 2
    finally:
        ov.release()
        ov.destroy()
