// Probe: Array-level entry point through BinaryExecutor. 40 s, finds
// "attempt to add with overflow" in Add::<PhysicalI32>::execute (finding F1).
// Injected as `#[cfg(kani)] mod kani_probe;` at the end of glaredb_core/src/lib.rs
// of a scratch copy; run with `cargo kani -p glaredb_core --harness add_i32_probe -Z stubbing`.
use crate::arrays::array::Array;
use crate::arrays::array::physical_type::{PhysicalI32, ScalarStorage};
use crate::arrays::batch::Batch;
use crate::arrays::datatype::DataType;
use crate::buffer::buffer_manager::DefaultBufferManager;
use crate::functions::scalar::ScalarFunction;
use crate::functions::scalar::builtin::arith::Add;
use crate::util::iter::TryFromExactSizeIterator;

pub fn stub_format(_args: std::fmt::Arguments<'_>) -> String {
    String::new()
}
pub fn stub_bt() -> std::backtrace::Backtrace {
    std::backtrace::Backtrace::disabled()
}

fn ok<T>(r: glaredb_error::Result<T>) -> T {
    match r {
        Ok(v) => v,
        Err(e) => {
            std::mem::forget(e);
            panic!("unexpected Err")
        }
    }
}

#[kani::proof]
#[kani::unwind(3)]
#[kani::stub(alloc::fmt::format, stub_format)]
#[kani::stub(std::backtrace::Backtrace::capture, stub_bt)]
fn add_i32_probe() {
    let a: i32 = kani::any();
    let b: i32 = kani::any();
    let arr_a = ok(Array::try_from_iter([a]));
    let arr_b = ok(Array::try_from_iter([b]));
    let batch = Batch { arrays: vec![arr_a, arr_b], num_rows: 1, cache: None };
    let mut out = ok(Array::new(&DefaultBufferManager, DataType::int32(), 1));
    let r = Add::<PhysicalI32>::execute(&(), &batch, &mut out);
    let good = r.is_ok();
    std::mem::forget(r);
    assert!(good);
    let s = ok(PhysicalI32::get_addressable(&out.data)).slice;
    assert_eq!(s[0] as i64, a as i64 + b as i64);
    std::mem::forget(batch);
    std::mem::forget(out);
}
