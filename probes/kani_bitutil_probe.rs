use super::*;

fn ref_unpack(bytes: &[u8], bw: u8, idx: usize) -> u64 {
    // value idx occupies bits [idx*bw, (idx+1)*bw) LSB-first
    let mut v = 0u64;
    let mut i = 0u8;
    while i < bw {
        let bit = idx * (bw as usize) + i as usize;
        let b = (bytes[bit / 8] >> (bit % 8)) & 1;
        v |= (b as u64) << i;
        i += 1;
    }
    v
}

pub fn stub_format(_args: std::fmt::Arguments<'_>) -> String { String::new() }
pub fn stub_bt() -> std::backtrace::Backtrace { std::backtrace::Backtrace::disabled() }

#[kani::proof]
#[kani::unwind(10)]
#[kani::stub(alloc::fmt::format, stub_format)]
#[kani::stub(std::backtrace::Backtrace::capture, stub_bt)]
fn bit_unpack_resume_probe() {
    let bytes: [u8; 4] = kani::any();
    let bw: u8 = kani::any();
    kani::assume(bw >= 1 && bw <= 8);
    let k: usize = kani::any();
    kani::assume(k <= 3);

    let mut whole = [0u8; 3];
    let mut st = BitUnpackState::new(bw);
    let mut c = ReadCursor::from_slice(&bytes);
    let r = bit_unpack(&mut st, &mut c, &mut whole);
    let good = r.is_ok();
    std::mem::forget(r);
    assert!(good);

    let mut parts = [0u8; 3];
    let mut st2 = BitUnpackState::new(bw);
    let mut c2 = ReadCursor::from_slice(&bytes);
    let r = bit_unpack(&mut st2, &mut c2, &mut parts[..k]);
    std::mem::forget(r);
    let r = bit_unpack(&mut st2, &mut c2, &mut parts[k..]);
    std::mem::forget(r);

    assert!(whole == parts);
    assert!(st.bit_pos == st2.bit_pos);
    assert!(whole[0] as u64 == ref_unpack(&bytes, bw, 0));
    assert!(whole[2] as u64 == ref_unpack(&bytes, bw, 2));
}
