use super::*;

fn alpha(b: u8) -> bool {
    b == b'a' || b == b',' || b == b'"' || b == b'\n'
}

/// chunk invariance: decode whole vs split at k.
#[kani::proof]
#[kani::unwind(260)]
fn csv_chunk_split_probe() {
    let bytes: [u8; 4] = kani::any();
    kani::assume(alpha(bytes[0]) && alpha(bytes[1]) && alpha(bytes[2]) && alpha(bytes[3]));
    let k: usize = kani::any();
    kani::assume(k <= 4);

    let mut out1 = ByteRecords::with_buffer_capacity(16);
    let mut d1 = CsvDecoder::new(DialectOptions::default());
    let _ = d1.decode(&bytes, &mut out1);

    let mut out2 = ByteRecords::with_buffer_capacity(16);
    let mut d2 = CsvDecoder::new(DialectOptions::default());
    let _ = d2.decode(&bytes[..k], &mut out2);
    let _ = d2.decode(&bytes[k..], &mut out2);

    assert_eq!(out1.num_records(), out2.num_records());
    std::mem::forget(out1);
    std::mem::forget(out2);
}
