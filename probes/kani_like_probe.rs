use super::*;

/// Reference LIKE matcher over bytes (ASCII alphabet): '%' any run, '_' one
/// byte, '\\' escapes the next pattern byte.
fn like_ref(s: &[u8], p: &[u8]) -> bool {
    // iterative matcher with backtracking on the last '%'
    let (mut si, mut pi) = (0usize, 0usize);
    let mut star_p: usize = usize::MAX;
    let mut star_s: usize = 0;
    let mut guard = 0;
    loop {
        guard += 1;
        if guard > 40 {
            return false;
        }
        if si < s.len() {
            if pi < p.len() {
                let c = p[pi];
                if c == b'%' {
                    star_p = pi;
                    star_s = si;
                    pi += 1;
                    continue;
                }
                if c == b'\\' && pi + 1 < p.len() {
                    if p[pi + 1] == s[si] {
                        pi += 2;
                        si += 1;
                        continue;
                    }
                } else if c == b'_' || c == s[si] {
                    pi += 1;
                    si += 1;
                    continue;
                }
            }
            if star_p != usize::MAX {
                star_s += 1;
                si = star_s;
                pi = star_p + 1;
                continue;
            }
            return false;
        } else {
            while pi < p.len() && p[pi] == b'%' {
                pi += 1;
            }
            return pi == p.len();
        }
    }
}

fn alpha(b: u8) -> bool {
    b == b'a' || b == b'b' || b == b'%' || b == b'_' || b == b'\\'
}

#[kani::proof]
#[kani::unwind(42)]
fn like_eq_class_probe() {
    let pb: [u8; 3] = kani::any();
    let plen: usize = kani::any();
    kani::assume(plen <= 3);
    let sb: [u8; 3] = kani::any();
    let slen: usize = kani::any();
    kani::assume(slen <= 3);
    kani::assume(alpha(pb[0]) && alpha(pb[1]) && alpha(pb[2]));
    kani::assume(alpha(sb[0]) && alpha(sb[1]) && alpha(sb[2]));
    let p = unsafe { std::str::from_utf8_unchecked(&pb[..plen]) };
    let s = &sb[..slen];
    if can_str_compare(p) {
        assert!((s == p.as_bytes()) == like_ref(s, p.as_bytes()));
    }
}
