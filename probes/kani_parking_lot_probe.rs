fn stub_lock_slow(_m: &parking_lot::RawMutex, _t: Option<std::time::Instant>) -> bool {
    panic!("contended lock in sequential harness")
}
fn stub_unlock_slow(_m: &parking_lot::RawMutex, _f: bool) {
    panic!("contended unlock in sequential harness")
}

#[kani::proof]
#[kani::stub(parking_lot::RawMutex::lock_slow, stub_lock_slow)]
#[kani::stub(parking_lot::RawMutex::unlock_slow, stub_unlock_slow)]
fn pl_mutex_stubbed() {
    let m = parking_lot::Mutex::new(1u8);
    {
        let mut g = m.lock();
        *g += 1;
    }
    assert_eq!(*m.lock(), 2);
}

#[kani::proof]
fn pl_mutex_plain() {
    let m = parking_lot::Mutex::new(1u8);
    {
        let mut g = m.lock();
        *g += 1;
    }
    assert_eq!(*m.lock(), 2);
}
