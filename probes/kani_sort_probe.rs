use super::*;

fn enc_f64(v: f64) -> [u8; 8] {
    let mut b = [0u8; 8];
    v.encode(&mut b);
    b
}

#[kani::proof]
fn f64_encode_order() {
    let a: f64 = kani::any();
    let b: f64 = kani::any();
    kani::assume(!a.is_nan() && !b.is_nan());
    let ea = u64::from_be_bytes(enc_f64(a));
    let eb = u64::from_be_bytes(enc_f64(b));
    if a < b {
        assert!(ea < eb);
    }
}

#[kani::proof]
fn bool_encode_order() {
    let mut f = [0u8; 1];
    let mut t = [0u8; 1];
    false.encode(&mut f);
    true.encode(&mut t);
    assert!(f[0] < t[0]);
}
