use std::sync::atomic::{AtomicBool, Ordering};
use std::task::{RawWaker, RawWakerVTable};

use super::*;

static WOKEN: [AtomicBool; 3] = [
    AtomicBool::new(false),
    AtomicBool::new(false),
    AtomicBool::new(false),
];

unsafe fn vt_clone(p: *const ()) -> RawWaker {
    RawWaker::new(p, &VT)
}
unsafe fn vt_wake(p: *const ()) {
    WOKEN[p as usize].store(true, Ordering::SeqCst);
}
unsafe fn vt_drop(_p: *const ()) {}
static VT: RawWakerVTable = RawWakerVTable::new(vt_clone, vt_wake, vt_wake, vt_drop);

fn waker(i: usize) -> Waker {
    unsafe { Waker::from_raw(RawWaker::new(i as *const (), &VT)) }
}

pub fn stub_format(_args: std::fmt::Arguments<'_>) -> String {
    String::new()
}
pub fn stub_bt() -> std::backtrace::Backtrace {
    std::backtrace::Backtrace::disabled()
}

fn stub_lock_slow(_m: &parking_lot::RawMutex, _t: Option<std::time::Instant>) -> bool {
    panic!("contended lock in sequential harness")
}
fn stub_unlock_slow(_m: &parking_lot::RawMutex, _f: bool) {
    panic!("contended unlock in sequential harness")
}

fn ok<T>(r: Result<T>) -> T {
    match r {
        Ok(v) => v,
        Err(e) => {
            std::mem::forget(e);
            panic!("err")
        }
    }
}

// actors: 0,1 = producers, 2 = consumer
#[kani::proof]
#[kani::unwind(8)]
#[kani::stub(alloc::fmt::format, stub_format)]
#[kani::stub(parking_lot::RawMutex::lock_slow, stub_lock_slow)]
#[kani::stub(parking_lot::RawMutex::unlock_slow, stub_unlock_slow)]
#[kani::stub(std::backtrace::Backtrace::capture, stub_bt)]
fn result_stream_schedule_probe() {
    let mut stream = ResultStream::new();
    let op = PhysicalStreamingResults::new(stream.sink());
    let props = ExecutionProperties { batch_size: 4 };
    let op_state = ok(op.create_operator_state(props));
    let mut pstates = ok(op.create_partition_push_states(&op_state, props, 2));

    // each producer has 1 batch to push then finalizes
    let mut to_push = [1u8, 1u8];
    let mut finalized = [false, false];
    let mut parked = [false, false, false];
    let mut consumer_done = false;
    let mut delivered = 0u8;
    let mut accepted = 0u8;

    let mut step = 0;
    while step < 6 {
        step += 1;
        let a: usize = kani::any();
        kani::assume(a < 3);
        // runnable: not parked, or woken
        let runnable = !parked[a] || WOKEN[a].load(Ordering::SeqCst);
        kani::assume(runnable);
        if a < 2 {
            if finalized[a] {
                continue;
            }
            parked[a] = false;
            WOKEN[a].store(false, Ordering::SeqCst);
            let w = waker(a);
            let mut cx = Context::from_waker(&w);
            if to_push[a] > 0 {
                let mut b = Batch::empty_with_num_rows(1);
                match ok(op.poll_push(&mut cx, &op_state, &mut pstates[a], &mut b)) {
                    PollPush::Pending => {
                        parked[a] = true;
                    }
                    _ => {
                        to_push[a] -= 1;
                        accepted += 1;
                    }
                }
                std::mem::forget(b);
            } else {
                let _ = ok(op.poll_finalize_push(&mut cx, &op_state, &mut pstates[a]));
                finalized[a] = true;
            }
        } else {
            if consumer_done {
                continue;
            }
            parked[2] = false;
            WOKEN[2].store(false, Ordering::SeqCst);
            let w = waker(2);
            let mut cx = Context::from_waker(&w);
            match std::pin::Pin::new(&mut stream).poll_next(&mut cx) {
                Poll::Pending => {
                    parked[2] = true;
                }
                Poll::Ready(None) => {
                    consumer_done = true;
                }
                Poll::Ready(Some(r)) => {
                    let b = ok(r);
                    delivered += 1;
                    std::mem::forget(b);
                }
            }
        }
        // no lost wakeup: not everyone unfinished is parked-and-unwoken
        let stuck0 = finalized[0] || (parked[0] && !WOKEN[0].load(Ordering::SeqCst));
        let stuck1 = finalized[1] || (parked[1] && !WOKEN[1].load(Ordering::SeqCst));
        let stuck2 = consumer_done || (parked[2] && !WOKEN[2].load(Ordering::SeqCst));
        let all_done = finalized[0] && finalized[1] && consumer_done;
        assert!(all_done || !(stuck0 && stuck1 && stuck2));
        assert!(delivered <= accepted);
        if consumer_done {
            assert!(delivered == 2 && accepted == 2);
        }
    }
    kani::cover!(consumer_done);
    std::mem::forget(pstates);
    std::mem::forget(op_state);
    std::mem::forget(op);
    std::mem::forget(stream);
}
