#!/usr/bin/env python3-vt
"""C02 translation validation (DESIGN.md §3 C02).

The REAL expression rewrite rules are run natively (tv/verif_tv_driver.rs, copied into the
scratch overlay) on an enumerated family of boolean expressions; each (before, after) pair
is translated to SMT (Kleene three-valued logic; Int32 column as a 32-bit bit-vector with a
NULL flag) and z3 decides whether some valuation of the columns makes them differ. unsat =
the rewrite is an equivalence for ALL column values. sat = a concrete row, replayed by
evaluating both expressions with the real ExpressionEvaluator (same driver, replay mode).
"""
import json, os, re, subprocess, sys, time

HERE = os.path.dirname(os.path.abspath(__file__))
VERIF = os.path.dirname(HERE)
sys.path.insert(0, os.path.join(VERIF, "lib"))
from vf.overlay import Overlay  # noqa: E402
from vf import index, evidence  # noqa: E402

import z3  # noqa: E402

PROP = "C02"


def parse(s):
    toks = re.findall(r"\(|\)|[^\s()]+", s)
    pos = 0

    def rd():
        nonlocal pos
        t = toks[pos]
        pos += 1
        if t == "(":
            lst = []
            while toks[pos] != ")":
                lst.append(rd())
            pos += 1
            return lst
        return t

    return rd()


class Env:
    def __init__(self):
        self.cn = [z3.Bool("c%d_null" % i) for i in range(3)]
        self.cv = [z3.Bool("c%d_val" % i) for i in range(3)]
        self.i_null = z3.Bool("i0_null")
        self.i_val = z3.BitVec("i0_val", 32)


F, T = z3.BoolVal(False), z3.BoolVal(True)


def ev(t, env):
    """-> ('b', null, val) for 3VL booleans, ('i', null, bv) for integers"""
    if isinstance(t, str):
        if t in ("c0", "c1", "c2"):
            i = int(t[1])
            return ("b", env.cn[i], env.cv[i])
        if t == "i0":
            return ("i", env.i_null, env.i_val)
        if t == "true":
            return ("b", F, T)
        if t == "false":
            return ("b", F, F)
        if t == "null":
            return ("b", T, F)
        if re.fullmatch(r"-?\d+", t):
            return ("i", F, z3.BitVecVal(int(t), 32))
        raise ValueError("unsupported atom %r" % t)
    op, args = t[0], t[1:]
    if op == "opaque":
        raise ValueError("opaque")
    if op in ("and", "or"):
        ch = [ev(a, env) for a in args]
        dom = (op == "or")  # dominating value: true for OR, false for AND
        isdom = z3.Or([z3.And(z3.Not(n), v if dom else z3.Not(v)) for (_, n, v) in ch]) if ch else F
        anynull = z3.Or([n for (_, n, _) in ch]) if ch else F
        null = z3.And(z3.Not(isdom), anynull)
        val = isdom if dom else z3.Not(isdom)
        return ("b", null, val)
    if op == "not":
        _, n, v = ev(args[0], env)
        return ("b", n, z3.Not(v))
    if op in ("isnull", "isnotnull", "istrue", "isfalse"):
        k, n, v = ev(args[0], env)
        if op == "isnull":
            return ("b", F, n)
        if op == "isnotnull":
            return ("b", F, z3.Not(n))
        if op == "istrue":
            return ("b", F, z3.And(z3.Not(n), v))
        return ("b", F, z3.And(z3.Not(n), z3.Not(v)))
    if op in ("=", "!=", "<", "<=", ">", ">=", "distinct", "notdistinct"):
        (ka, na, va), (kb, nb, vb) = ev(args[0], env), ev(args[1], env)
        if ka == "b":
            eq = va == vb
            cmpv = {"=": eq, "!=": z3.Not(eq)}.get(op)
            if cmpv is None:
                raise ValueError("unsupported boolean comparison")
        else:
            cmpv = {"=": va == vb, "!=": va != vb, "<": va < vb, "<=": va <= vb, ">": va > vb, ">=": va >= vb,
                    "distinct": va != vb, "notdistinct": va == vb}[op]
        if op == "distinct":
            return ("b", F, z3.Or(na != nb, z3.And(z3.Not(na), z3.Not(nb), cmpv)))
        if op == "notdistinct":
            return ("b", F, z3.Or(z3.And(na, nb), z3.And(z3.Not(na), z3.Not(nb), cmpv)))
        return ("b", z3.Or(na, nb), cmpv)
    raise ValueError("unsupported operator %r" % op)


def conjuncts(t):
    if isinstance(t, list) and t[0] == "and":
        return [json.dumps(x) for x in t[1:]]
    return [json.dumps(t)]


def flatten(t):
    """(or a (or b c)) -> (or a b c), same for and (what UnnestConjunctionRewrite does first)."""
    if not isinstance(t, list):
        return t
    kids = [flatten(x) for x in t[1:]]
    if t[0] in ("and", "or"):
        out = []
        for k in kids:
            if isinstance(k, list) and k[0] == t[0]:
                out.extend(k[1:])
            else:
                out.append(k)
        return [t[0]] + out
    return [t[0]] + kids


def f9_shape(t):
    """Known finding F9: an OR node one of whose branches consists only of factors common to all
    branches (DistributiveOrRewrite then drops that branch instead of the whole OR)."""
    if not isinstance(t, list):
        return False
    if t[0] == "or" and len(t) > 2:
        sets = [set(conjuncts(x)) for x in t[1:]]
        common = set.intersection(*sets)
        if common and any(s <= common for s in sets) and not all(s <= common for s in sets):
            return True
    return any(f9_shape(x) for x in t[1:])


def run(cmd, cwd, env=None, timeout=3600):
    e = dict(os.environ)
    e.update({"CARGO_NET_OFFLINE": "true", "CARGO_TERM_COLOR": "never"})
    if env:
        e.update(env)
    p = subprocess.run(cmd, cwd=cwd, env=e, stdout=subprocess.PIPE, stderr=subprocess.STDOUT, timeout=timeout, text=True)
    return p.returncode, p.stdout


def main():
    tier = "quick"
    args = sys.argv[1:]
    if "--tier" in args:
        tier = args[args.index("--tier") + 1]
    tier = os.environ.get("VERIF_TIER", tier) if "--tier" not in args else tier
    seed = int(os.environ.get("VERIF_SEED", "0") or 0)
    t0 = time.time()
    ov = None
    for i in range(4):
        o = Overlay("slot%d" % i)
        if o.acquire(0):
            ov = o
            break
    temp = False
    if ov is None:
        ov = Overlay("tmp-%d" % os.getpid())
        ov.acquire(0)
        temp = True
    try:
        modules, _ = index.load()
        ov.sync(modules)
        tdir = os.path.join(ov.tree, "crates", "glaredb_core", "tests")
        os.makedirs(tdir, exist_ok=True)
        dst = os.path.join(tdir, "verif_tv_driver.rs")
        with open(os.path.join(HERE, "verif_tv_driver.rs")) as fh:
            src = fh.read()
        if not os.path.exists(dst) or open(dst).read() != src:
            with open(dst, "w") as fh:
                fh.write(src)
        target = os.path.join(ov.root, "target-native")
        work = os.path.join(ov.root, "tv")
        os.makedirs(work, exist_ok=True)
        emit = os.path.join(work, "pairs.tsv")
        base = ["cargo", "test", "--offline", "-p", "glaredb_core", "--test", "verif_tv_driver", "--target-dir", target, "--", "--nocapture"]
        rc, out = run(base, ov.tree, {"VERIF_TV_MODE": "emit", "VERIF_TV_OUT": emit})
        if rc != 0 or not os.path.exists(emit):
            print(out[-3000:])
            print("INCONCLUSIVE property=%s reason=driver does not build or run on this tree" % PROP)
            return 2
        pairs = [l.rstrip("\n").split("\t") for l in open(emit)]
        # quick: a deterministic sample (every k-th expression, offset by the seed); thorough: all
        ids = sorted({int(p[0]) for p in pairs})
        if tier == "quick":
            k = 4
            keep = {i for i in ids if (i + seed) % k == 0}
        else:
            keep = set(ids)
        env = Env()
        solver = z3.Solver()
        decided = equal = differ = unsupported = rewrite_errors = changed = 0
        cex = []  # (id, rule, before, after, valuation)
        samples = []
        solver_s = 0.0
        cross = {"checked": 0, "disagree": 0, "inconclusive": 0}
        for pid, rule, before, after in pairs:
            pid = int(pid)
            if pid not in keep:
                continue
            if after == "REWRITE-ERROR":
                rewrite_errors += 1
                continue
            try:
                tb, ta = parse(before), parse(after)
                (_, nb, vb), (_, na, va) = ev(tb, env), ev(ta, env)
            except ValueError:
                unsupported += 1
                continue
            if before != after:
                changed += 1
            solver.push()
            solver.add(z3.Not(z3.And(nb == na, z3.Or(nb, vb == va))))
            ts = time.time()
            # prefer a witness row without NULLs (the engine's AND/OR propagate NULL - known finding F8 -
            # so NULL-laden rows often evaluate to NULL on both sides and hide a real difference)
            solver.push()
            solver.add(z3.Not(z3.Or(env.cn + [env.i_null])))
            res = solver.check()
            model = solver.model() if res == z3.sat else None
            if res != z3.sat:
                solver.pop()
                res = solver.check()
                model = solver.model() if res == z3.sat else None
                solver.push()
            solver_s += time.time() - ts
            if res == z3.unsat:
                equal += 1
                decided += 1
            elif res == z3.sat:
                differ += 1
                decided += 1
                m = model

                def b3(i):
                    if z3.is_true(m.eval(env.cn[i], model_completion=True)):
                        return "N"
                    return "T" if z3.is_true(m.eval(env.cv[i], model_completion=True)) else "F"

                if z3.is_true(m.eval(env.i_null, model_completion=True)):
                    iv = "N"
                else:
                    raw = m.eval(env.i_val, model_completion=True).as_long()
                    iv = str(raw - (1 << 32) if raw >= (1 << 31) else raw)
                cex.append((pid, rule, before, after, "%s %s %s %s" % (b3(0), b3(1), b3(2), iv)))
            # thorough tier: cross-check every 25th query with cvc5 (second solver, same SMT-LIB text)
            if tier == "thorough" and decided % 25 == 0:
                solver.pop()  # drop the NULL-free preference, keep the inequivalence assertion
                smt2 = "(set-logic ALL)\n" + solver.to_smt2()
                solver.push()
                try:
                    cp = subprocess.run(["cvc5", "--lang", "smt2"], input=smt2, stdout=subprocess.PIPE, stderr=subprocess.STDOUT,
                                        text=True, timeout=60)
                    ans = cp.stdout.strip().splitlines()[0] if cp.stdout.strip() else "?"
                except (OSError, subprocess.TimeoutExpired):
                    ans = "?"
                if "(error" in (cp.stdout if ans != "?" else ""):
                    ans = "?"
                z3_ans = "unsat" if (res == z3.unsat) else "sat"
                cross["checked"] += 1
                if ans in ("sat", "unsat") and ans != z3_ans:
                    cross["disagree"] += 1
                elif ans not in ("sat", "unsat"):
                    cross["inconclusive"] += 1
            solver.pop()
            solver.pop()
            if len(samples) < 6 and before != after:
                samples.append({"rule": rule, "before": before, "after": after, "verdict": str(res)})
        # ---- replay disagreements through the real evaluator ----
        confirmed, known, unreproduced = [], [], []
        try:
            with open(os.path.join(VERIF, "known_findings.json")) as fh:
                f9_listed = any(f.get("id") == "F9" and PROP in f.get("properties", []) for f in json.load(fh).get("findings", []))
        except (OSError, ValueError):
            f9_listed = False
        if cex:
            inp = os.path.join(work, "replay_in.tsv")
            outp = os.path.join(work, "replay_out.tsv")
            with open(inp, "w") as fh:
                for pid, rule, _, _, val in cex:
                    fh.write("%d\t%s\t%s\n" % (pid, rule, val))
            rc, out = run(base, ov.tree, {"VERIF_TV_MODE": "replay", "VERIF_TV_OUT": outp, "VERIF_TV_IN": inp})
            got = {}
            if rc == 0 and os.path.exists(outp):
                for l in open(outp):
                    p = l.rstrip("\n").split("\t")
                    got[(int(p[0]), p[1])] = (p[2], p[3])
            for pid, rule, before, after, val in cex:
                vb, va = got.get((pid, rule), ("?", "?"))
                rec = {"id": pid, "rule": rule, "before": before, "after": after, "row(c0 c1 c2 i0)": val,
                       "evaluator_before": vb, "evaluator_after": va}
                if vb == "?" or vb == va:
                    unreproduced.append(rec)
                elif f9_listed and rule in ("distributive_or", "pipeline") and (f9_shape(parse(before)) or f9_shape(flatten(parse(before)))):
                    known.append(rec)
                else:
                    confirmed.append(rec)
        rcode = 0
        os.makedirs(os.path.join(VERIF, "replays", PROP), exist_ok=True)
        if confirmed:
            path = os.path.join(VERIF, "replays", PROP, "tv_disagreements.json")
            with open(path, "w") as fh:
                json.dump(confirmed, fh, indent=1)
            print("VIOLATION property=%s replay=%s" % (PROP, path))
            for r in confirmed[:5]:
                print("  rule=%s before=%s after=%s row=%s evaluator: %s vs %s" % (r["rule"], r["before"], r["after"], r["row(c0 c1 c2 i0)"], r["evaluator_before"], r["evaluator_after"]))
            rcode = 1
        if known:
            print("KNOWN-FINDING: property=%s F9 DistributiveOrRewrite drops an OR branch that consists only of common factors "
                  "instead of the whole OR, e.g. %s -> %s on row %s (%d disagreeing pairs of this shape, all replayed through the real evaluator)"
                  % (PROP, known[0]["before"], known[0]["after"], known[0]["row(c0 c1 c2 i0)"], len(known)))
        if unreproduced:
            # a Kleene disagreement that the real evaluator does not show (the engine's AND/OR propagate NULL: F8)
            print("note: %d SMT disagreements did not reproduce with the real evaluator (NULL-propagating AND/OR, F8); not reported" % len(unreproduced))
        if cross["disagree"]:
            print("INCONCLUSIVE property=%s reason=z3 and cvc5 disagree on %d queries (encoding or solver problem)" % (PROP, cross["disagree"]))
            rcode = rcode or 2
        if decided == 0:
            print("INCONCLUSIVE property=%s reason=nothing decided" % PROP)
            rcode = rcode or 2
        wall = time.time() - t0
        doc = {
            "property_id": PROP, "tier": tier, "seed": seed, "level": "translation_validation",
            "coverage": {
                "programs": decided,
                "disagreements_checked": len(cex),
                "samples": samples or [{"note": "no rewritten pair in the sample"}],
                "rule": "program = (rewrite rule, input expression) pair: the real rule is run natively, before/after are "
                        "translated to SMT (Kleene 3VL, Int32 as BitVec 32 + NULL flag) and z3 decides inequivalence over ALL rows",
                "expressions_enumerated": len(ids), "expressions_checked": len(keep), "rules": ["distributive_or", "unnest_conjunction", "pipeline(apply_rewrites)"],
                "pairs_changed_by_rewrite": changed, "equivalent_for_all_rows": equal, "inequivalent": differ,
                "unsupported_pairs": unsupported, "rewrite_errors": rewrite_errors,
                "confirmed_native": len(confirmed), "known_findings_hit": ["F9"] if known else [], "known_pairs": len(known),
                "not_reproduced": len(unreproduced), "cvc5_cross_check": cross, "solver": "z3 " + z3.get_version_string(), "solver_s": round(solver_s, 3),
                "bounds": "boolean expressions over 3 nullable BOOLEAN columns and one nullable INT32 column compared with a literal; "
                          "AND/OR/NOT/IS NULL, depth <= 3, fan-out <= 3; quick = every 4th expression (offset by VERIF_SEED), thorough = all",
                "functions_encoded": ["DistributiveOrRewrite::rewrite", "UnnestConjunctionRewrite::rewrite", "ExpressionRewriter::apply_rewrites",
                                      "ExpressionEvaluator::eval_batch (replay)"],
                "exhaustive": False,
            },
            "assumptions": ["SMT semantics of AND/OR/NOT/IS/comparison are SQL's (Kleene); the data quantifier is decided by z3, the program "
                            "quantifier is an enumerated, bounded family", "z3 decides; in the thorough tier every 25th query is re-decided by cvc5 on the same SMT-LIB text (coverage.cvc5_cross_check)"],
            "wall_s": round(wall, 2), "violations": len(confirmed),
        }
        if "--no-evidence" not in args:
            evidence.write(PROP, doc)
        print("%s tier=%s pairs=%d equivalent=%d inequivalent=%d known=%d violations=%d unsupported=%d wall=%.0fs" %
              (PROP, tier, decided, equal, differ, len(known), len(confirmed), unsupported, wall))
        return rcode
    finally:
        ov.release()
        if temp:
            ov.destroy()


if __name__ == "__main__":
    sys.exit(main())
