//! C02 translation-validation driver (copied into the scratch overlay as
//! crates/glaredb_core/tests/verif_tv_driver.rs; never into /repo).
//!
//! mode emit   : enumerate boolean expressions, run the REAL rewrite rules on them, print
//!               "<id>\t<rule>\t<before>\t<after>" with expressions as S-expressions.
//! mode replay : read "<id>\t<rule>\t<c0> <c1> <c2> <i0>" lines (T/F/N for the boolean columns,
//!               an integer or N for i0), rebuild expression <id>, rewrite it with <rule>,
//!               evaluate before and after with the real ExpressionEvaluator on that one-row
//!               batch, print "<id>\t<rule>\t<before value>\t<after value>".
use std::io::{BufRead, Write};

use glaredb_core::arrays::array::Array;
use glaredb_core::arrays::batch::Batch;
use glaredb_core::arrays::datatype::DataType;
use glaredb_core::arrays::scalar::ScalarValue;
use glaredb_core::expr::comparison_expr::ComparisonOperator;
use glaredb_core::expr::conjunction_expr::ConjunctionOperator;
use glaredb_core::expr::is_expr::{IsExpr, IsOperator};
use glaredb_core::expr::negate_expr::NegateOperator;
use glaredb_core::expr::physical::evaluator::ExpressionEvaluator;
use glaredb_core::expr::{self, Expression};
use glaredb_core::logical::binder::table_list::TableList;
use glaredb_core::optimizer::expr_rewrite::distributive_or::DistributiveOrRewrite;
use glaredb_core::optimizer::expr_rewrite::unnest_conjunction::UnnestConjunctionRewrite;
use glaredb_core::optimizer::expr_rewrite::{ExpressionRewriteRule, ExpressionRewriter};
use glaredb_core::arrays::array::selection::Selection;
use glaredb_core::expr::physical::planner::PhysicalExpressionPlanner;
use glaredb_core::util::iter::TryFromExactSizeIterator;

fn col(i: usize) -> Expression {
    if i < 3 {
        expr::column((0usize, i), DataType::boolean())
    } else {
        expr::column((0usize, i), DataType::int32())
    }
}

fn atoms() -> Vec<Expression> {
    vec![
        col(0),
        col(1),
        col(2),
        expr::eq(col(3), expr::lit(1)).unwrap().into(),
        expr::lt(col(3), expr::lit(1)).unwrap().into(),
        expr::negate(NegateOperator::Not, col(0)).unwrap().into(),
        expr::gt_eq(col(3), expr::lit(7)).unwrap().into(),
    ]
}

fn and(v: Vec<Expression>) -> Expression {
    expr::and(v).unwrap().into()
}
fn or(v: Vec<Expression>) -> Expression {
    expr::or(v).unwrap().into()
}

/// Deterministic enumeration. `limit` caps the number of expressions (quick tier), the order
/// is fixed so that ids are stable; VERIF_SEED rotates the starting point of the sample.
fn enumerate() -> Vec<Expression> {
    let a = atoms();
    let mut l1: Vec<Expression> = a.clone();
    for i in 0..a.len() {
        for j in 0..a.len() {
            if i != j {
                l1.push(and(vec![a[i].clone(), a[j].clone()]));
            }
        }
    }
    for i in 0..3 {
        l1.push(and(vec![a[i].clone(), a[(i + 1) % 3].clone(), a[3].clone()]));
        l1.push(or(vec![a[i].clone(), a[(i + 2) % 3].clone()]));
    }
    let mut out: Vec<Expression> = Vec::new();
    // OR of two level-1 terms
    for x in &l1 {
        for y in &l1 {
            out.push(or(vec![x.clone(), y.clone()]));
        }
    }
    // OR of three terms (sample: strides through l1)
    let n = l1.len();
    for i in 0..n {
        let x = &l1[i];
        let y = &l1[(i * 7 + 3) % n];
        let z = &l1[(i * 13 + 5) % n];
        out.push(or(vec![x.clone(), y.clone(), z.clone()]));
        out.push(or(vec![y.clone(), x.clone(), x.clone()]));
        out.push(and(vec![or(vec![x.clone(), y.clone()]), z.clone()]));
        out.push(and(vec![or(vec![x.clone(), y.clone()]), or(vec![x.clone(), z.clone()])]));
        out.push(or(vec![and(vec![x.clone(), y.clone()]), and(vec![x.clone(), z.clone()]), x.clone()]));
        out.push(expr::negate(NegateOperator::Not, or(vec![x.clone(), y.clone()])).unwrap().into());
        out.push(and(vec![x.clone(), and(vec![y.clone(), z.clone()])]));
        out.push(or(vec![x.clone(), or(vec![y.clone(), and(vec![x.clone(), z.clone()])])]));
    }
    out
}

fn sexpr(e: &Expression, out: &mut String) {
    match e {
        Expression::Column(c) => {
            if c.reference.column < 3 {
                out.push_str(&format!("c{}", c.reference.column));
            } else {
                out.push_str("i0");
            }
        }
        Expression::Literal(l) => match &l.0 {
            ScalarValue::Boolean(b) => out.push_str(if *b { "true" } else { "false" }),
            ScalarValue::Int32(v) => out.push_str(&format!("{v}")),
            ScalarValue::Null => out.push_str("null"),
            other => out.push_str(&format!("(opaque lit:{other})")),
        },
        Expression::Conjunction(c) => {
            out.push_str(match c.op {
                ConjunctionOperator::And => "(and",
                ConjunctionOperator::Or => "(or",
            });
            for x in &c.expressions {
                out.push(' ');
                sexpr(x, out);
            }
            out.push(')');
        }
        Expression::Comparison(c) => {
            out.push_str(match c.op {
                ComparisonOperator::Eq => "(=",
                ComparisonOperator::NotEq => "(!=",
                ComparisonOperator::Lt => "(<",
                ComparisonOperator::LtEq => "(<=",
                ComparisonOperator::Gt => "(>",
                ComparisonOperator::GtEq => "(>=",
                ComparisonOperator::IsDistinctFrom => "(distinct",
                ComparisonOperator::IsNotDistinctFrom => "(notdistinct",
            });
            out.push(' ');
            sexpr(&c.left, out);
            out.push(' ');
            sexpr(&c.right, out);
            out.push(')');
        }
        Expression::Negate(n) => match n.op {
            NegateOperator::Not => {
                out.push_str("(not ");
                sexpr(&n.expr, out);
                out.push(')');
            }
            NegateOperator::Negate => out.push_str("(opaque negate)"),
        },
        Expression::Is(i) => {
            out.push_str(match i.op {
                IsOperator::IsNull => "(isnull ",
                IsOperator::IsNotNull => "(isnotnull ",
                IsOperator::IsTrue => "(istrue ",
                IsOperator::IsFalse => "(isfalse ",
            });
            sexpr(&i.input, out);
            out.push(')');
        }
        other => out.push_str(&format!("(opaque {})", other)),
    }
}

fn apply(rule: &str, e: Expression) -> Option<Expression> {
    let r = match rule {
        "distributive_or" => DistributiveOrRewrite::rewrite(e),
        "unnest_conjunction" => UnnestConjunctionRewrite::rewrite(e),
        "pipeline" => ExpressionRewriter::apply_rewrites(e),
        _ => unreachable!(),
    };
    r.ok()
}

const RULES: [&str; 3] = ["distributive_or", "unnest_conjunction", "pipeline"];

fn eval_one(list: &TableList, e: &Expression, vals: &[&str]) -> String {
    let mut table_refs: Vec<_> = e.get_table_references().into_iter().collect();
    table_refs.sort();
    let phys = PhysicalExpressionPlanner::new(list).plan_scalar(&table_refs, e).unwrap();
    let mut ev = ExpressionEvaluator::try_new(vec![phys], 1).unwrap();
    let b = |s: &str| -> Option<bool> {
        match s {
            "T" => Some(true),
            "F" => Some(false),
            _ => None,
        }
    };
    let i0: Option<i32> = if vals[3] == "N" { None } else { Some(vals[3].parse().unwrap()) };
    let mut input = Batch::from_arrays([
        Array::try_from_iter([b(vals[0])]).unwrap(),
        Array::try_from_iter([b(vals[1])]).unwrap(),
        Array::try_from_iter([b(vals[2])]).unwrap(),
        Array::try_from_iter([i0]).unwrap(),
    ])
    .unwrap();
    let mut output = Batch::new([DataType::boolean()], 1).unwrap();
    match ev.eval_batch(&mut input, Selection::linear(0, 1), &mut output) {
        Ok(()) => {
            let v = output.arrays()[0].get_value(0).unwrap();
            format!("{v}")
        }
        Err(e) => format!("ERROR:{}", e.get_msg()),
    }
}

#[test]
fn verif_tv_driver() {
    let mode = std::env::var("VERIF_TV_MODE").unwrap_or_default();
    let out_path = std::env::var("VERIF_TV_OUT").unwrap_or_default();
    if mode.is_empty() {
        return;
    }
    let exprs = enumerate();
    let mut out = std::fs::File::create(&out_path).unwrap();
    if mode == "emit" {
        for (id, e) in exprs.iter().enumerate() {
            for rule in RULES {
                let mut before = String::new();
                sexpr(e, &mut before);
                match apply(rule, e.clone()) {
                    Some(after) => {
                        let mut a = String::new();
                        sexpr(&after, &mut a);
                        writeln!(out, "{id}\t{rule}\t{before}\t{a}").unwrap();
                    }
                    None => writeln!(out, "{id}\t{rule}\t{before}\tREWRITE-ERROR").unwrap(),
                }
            }
        }
    } else {
        let mut list = TableList::empty();
        list.push_table(
            None,
            [DataType::boolean(), DataType::boolean(), DataType::boolean(), DataType::int32()],
            ["c0", "c1", "c2", "i0"],
        )
        .unwrap();
        let inp = std::fs::File::open(std::env::var("VERIF_TV_IN").unwrap()).unwrap();
        for line in std::io::BufReader::new(inp).lines() {
            let line = line.unwrap();
            let parts: Vec<&str> = line.split('\t').collect();
            if parts.len() != 3 {
                continue;
            }
            let id: usize = parts[0].parse().unwrap();
            let rule = parts[1];
            let vals: Vec<&str> = parts[2].split(' ').collect();
            let before = exprs[id].clone();
            let after = apply(rule, before.clone()).unwrap();
            let vb = eval_one(&list, &before, &vals);
            let va = eval_one(&list, &after, &vals);
            writeln!(out, "{id}\t{rule}\t{vb}\t{va}").unwrap();
        }
    }
}
